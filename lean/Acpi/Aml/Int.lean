/-
  Acpi.Aml.Int — model of the integer encoders (src/aml.rs:173-225, 448-459):
  `impl Aml for u8/u16/u32/u64/usize`.  Each width delegates to the narrower one when the
  value fits, exactly as the Rust does.
-/
import Acpi.Basic
namespace Acpi

/-- `impl Aml for Byte` -/
def encU8 (v : UInt8) : Bytes :=
  if v = 0 then [0x00] else if v = 1 then [0x01] else [0x0A, v]

/-- `impl Aml for Word` -/
def encU16 (v : UInt16) : Bytes :=
  if v ≤ 255 then encU8 v.toUInt8 else 0x0B :: u16le v

/-- `impl Aml for DWord` -/
def encU32 (v : UInt32) : Bytes :=
  if v ≤ 65535 then encU16 v.toUInt16 else 0x0C :: u32le v

/-- `impl Aml for QWord` -/
def encU64 (v : UInt64) : Bytes :=
  if v ≤ 4294967295 then encU32 v.toUInt32 else 0x0E :: u64le v

/-- `impl Aml for Usize` on a 64-bit target: `(*self as u64).to_aml_bytes` -/
def encUsize (v : UInt64) : Bytes := encU64 v

end Acpi
