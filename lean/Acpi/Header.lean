/-
  Acpi.Header — the standard 36-byte table header (`TableHeader`, src/lib.rs:94-107), a
  `#[repr(C, packed)]` struct serialised with `as_bytes()`: fields in declaration order,
  little-endian, no padding.
-/
import Acpi.Basic
namespace Acpi

/-- `CREATOR_ID` and `CREATOR_REVISION` (lib.rs:45-46) -/
def creatorId : Bytes := [0x52, 0x56, 0x41, 0x54]      -- "RVAT"
def creatorRev : Bytes := [0, 0, 0, 1]

structure Oem where
  id : Bytes          -- 6 bytes
  table : Bytes       -- 8 bytes
  rev : UInt32
deriving Repr, DecidableEq, Inhabited

/-- `TableHeader::as_bytes()` -/
def hdrBytes (sig : Bytes) (length : UInt32) (rev cks : UInt8) (o : Oem) : Bytes :=
  sig ++ u32le length ++ [rev, cks] ++ o.id ++ o.table ++ u32le o.rev ++ creatorId ++ creatorRev

def Oem.wf (o : Oem) : Prop := o.id.length = 6 ∧ o.table.length = 8

end Acpi
