/-
  Driver for the `fix` stream: FADT, BERT, SPCR, TCPA client/server, TPM2, RSDP, FACS, SLIT.
    case: T oemid oemtable oemrev ctor ; op ; op …     impl: image-hex per observation | panic
-/
import Drv.Util
import Drv.Tables
import Acpi.Tables.Fixed
import Acpi.Spec.FixedLayout
import Acpi.Tables.Misc
import Acpi.Props.C04.Misc
namespace Drv
open Acpi

def fixedOfString (s : String) : Option FixedT :=
  match s with
  | "fadt" => some .fadt | "bert" => some .bert | "spcr" => some .spcr | "tcpac" => some .tcpac
  | "tcpas" => some .tcpas | "tpm2" => some .tpm2 | "rsdp" => some .rsdp | "facs" => some .facs
  | "slit" => some .slit | _ => none

def parseOptTok (t : String) : Option Opt :=
  match t.splitOn "=" with
  | [n] => some { name := n }
  | [n, vs] => (parseNums vs ".").map fun v => { name := n, v }
  | _ => none

/-- first index at which two byte strings differ -/
def firstDiff (a b : Bytes) : Nat :=
  let rec go : Bytes → Bytes → Nat → Nat
    | x :: xs, y :: ys, i => if x = y then go xs ys (i + 1) else i
    | _, _, i => i
  go a b 0

def checkFix (case impl : List String) : List Fail := Id.run do
  let groups := (case.foldl (fun (acc : List (List String)) t =>
    if t = ";" then [] :: acc else match acc with
      | g :: gs => (t :: g) :: gs
      | [] => [[t]]) [[]]).reverse.map List.reverse
  let hd := groups.headD []
  let opToks := (groups.drop 1).map (fun g => g.headD "")
  let bad (m : String) : List Fail := [⟨"corr", "C01,C02,C04,C11,C12", "parse", m⟩]
  match hd with
  | [tname, oid, otab, orev, ctorS] =>
    let some t := fixedOfString tname | return bad "table"
    let some oid := hexToBytes oid | return bad "oem id"
    let some otab := hexToBytes otab | return bad "oem table"
    let some orev := u32? orev | return bad "oem rev"
    let some ctor := parseNums ctorS "," | return bad "ctor"
    let some ops := opToks.mapM parseOptTok | return bad "op"
    let oem : Oem := ⟨oid, otab, orev⟩
    let c : EArgs := { n := ctor.toArray }
    let layoutTag := match t with | .slit => "C04,C12" | _ => "C04"
    let corrTag := match t with | .slit => "C04,C12" | .fadt | .tcpas => "C04,C11" | _ => "C04"
    let mut img0 : Bytes := []
    let mut fails : List Fail := []
    let mut st := FixedState.new t oem c
    let mut i := 0
    for ob in impl do
      if i > 0 then
        match st, ops[i - 1]? with
        | some s, some o => st := s.step o
        | _, _ => st := none
      let doneOps := ops.take i
      if ob = "panic" then
        -- refusal: model must refuse too; for SLIT in-range pairs must be accepted (C12)
        match st with
        | some _ =>
          fails := fails ++ [⟨"corr", layoutTag, "unexpected-panic", s!"{tname} obs#{i}: impl panics, model does not"⟩]
        | none => pure ()
        if t = .slit ∧ i > 0 then
          match ops[i - 1]? with
          | some o => if o.arg 0 < c.num 0 ∧ o.arg 1 < c.num 0 then
              fails := fails ++ [⟨"prop", "C12", "in-range-pair-refused", s!"slit {c.num 0}: ({o.arg 0},{o.arg 1})"⟩]
          | none => pure ()
        if t = .slit ∧ i = 0 ∧ c.num 0 * c.num 0 + 44 < 2 ^ 32 then
          fails := fails ++ [⟨"prop", "C12", "shape-refused", s!"slit {c.num 0}"⟩]
        break
      -- `rawdiff:<image>:<as_bytes>`: the table's raw in-memory form differs from its serialisation (C14)
      let (ob, rawDiff) := if ob.startsWith "rawdiff:" then
          match (ob.drop 8).toString.splitOn ":" with
          | [im, rw] => (im, some rw)
          | _ => (ob, none)
        else (ob, none)
      match rawDiff with
      | some rw => fails := fails ++ [⟨"prop", "C14", "raw-form-differs", s!"{tname} obs#{i}: as_bytes {rw} serialised {ob}"⟩]
      | none => pure ()
      let some img := hexToBytes ob | return bad "image hex"
      match st with
      | none =>
        fails := fails ++ [⟨"corr", layoutTag ++ ",C18", "missing-panic", s!"{tname} obs#{i}: model panics, impl emits"⟩]
        if t = .slit ∧ i = 0 then
          fails := fails ++ [⟨"prop", "C18", "not-refused", s!"slit with {c.num 0} localities: localities² + 44 does not fit the 32-bit Length"⟩]
        -- the model has no image to compare with, but what C01 and C02 say about an emitted image does
        -- not need one: whatever the implementation returns must sum to zero and announce its own size
        if t ≠ .facs ∧ t ≠ .rsdp then
          if sum8 img ≠ 0 then
            fails := fails ++ [⟨"prop", "C01", "sum-nonzero", s!"{tname} obs#{i}: image sums to {(sum8 img).toNat} (an operation the model refuses was accepted)"⟩]
          if readAt img 4 4 ≠ some img.length then
            fails := fails ++ [⟨"prop", "C02", "length-field", s!"{tname} obs#{i}: Length {(readAt img 4 4).getD 0}, image {img.length} bytes (an operation the model refuses was accepted)"⟩]
        break
      | some s =>
        let m0 := s.image
        -- the header revision byte is an observed parameter: adopt the implementation's and keep
        -- the model's image summing to zero
        let m := if t ≠ .rsdp ∧ t ≠ .facs ∧ m0.length > 9 ∧ img.length > 9 ∧ m0.getD 8 0 ≠ img.getD 8 0 then
            (m0.set 8 (img.getD 8 0)).set 9 (m0.getD 9 0 + m0.getD 8 0 - img.getD 8 0)
          else m0
        if m ≠ img then
          let d := firstDiff m img
          -- the RSDP's two checksum bytes (8: first 20 bytes, 32: all 36) are C01's
          let rsdpCks : Bool := t = .rsdp ∧ m.length = img.length ∧
            (List.range m.length).all fun j => j = 8 ∨ j = 32 ∨ m.getD j 0 = img.getD j 0
          let tag := if rsdpCks then "C01" else if m.length ≠ img.length then "C02," ++ corrTag
            else if t ≠ .rsdp ∧ t ≠ .facs ∧ d = 9 ∧ (m.drop 10 = img.drop 10) then "C01"
            else if t ≠ .rsdp ∧ t ≠ .facs ∧ 4 ≤ d ∧ d < 8 then "C02"
            else (if i = 0 then layoutTag else corrTag)
          fails := fails ++ [⟨"corr", tag, "image", s!"{tname} obs#{i}: first difference at byte {d} (model {m.getD d 0}, impl {img.getD d 0})"⟩]
        -- oracles on the implementation's image
        match t with
        | .facs =>
          if readAt img 4 4 ≠ some img.length then fails := fails ++ [⟨"prop", "C02", "length-field", "facs"⟩]
        | .rsdp =>
          if sum8 (img.take 20) ≠ 0 then fails := fails ++ [⟨"prop", "C01", "sum-nonzero", "rsdp first 20 bytes"⟩]
          if sum8 img ≠ 0 then fails := fails ++ [⟨"prop", "C01", "sum-nonzero", "rsdp all 36 bytes"⟩]
          if readAt img 20 4 ≠ some img.length then fails := fails ++ [⟨"prop", "C02", "length-field", "rsdp"⟩]
        | _ =>
          -- the SLIT's checksum under `set_distance` is also C12's ("the table checksum stays valid throughout")
          if sum8 img ≠ 0 then fails := fails ++ [⟨"prop", if t = .slit ∧ i > 0 then "C01,C12" else "C01", "sum-nonzero", s!"{tname} obs#{i}: image sums to {(sum8 img).toNat}"⟩]
          if readAt img 4 4 ≠ some img.length then
            fails := fails ++ [⟨"prop", "C02", "length-field", s!"{tname} obs#{i}: Length {(readAt img 4 4).getD 0}, image {img.length} bytes"⟩]
        -- C03: fields that summarise a body: SLIT locality count vs matrix size; SPCR namespace string
        if t = .slit then
          let k := (readAt img 36 8).getD 0
          if img.length ≠ 44 + k * k ∨ some k ≠ some (c.num 0) then
            fails := fails ++ [⟨"prop", "C03", "slit-locality-count", s!"slit obs#{i}: count field {k}, image {img.length} bytes, {c.num 0} localities requested"⟩]
        if t = .spcr then
          let off := (readAt img 86 2).getD 0
          let len := (readAt img 84 2).getD 0
          if off + len ≠ img.length ∨ off ≠ 88 ∨ (img.drop off).getLast? ≠ some 0 then
            fails := fails ++ [⟨"prop", "C03", "spcr-namespace-string", s!"offset {off} length {len} image {img.length}"⟩]
        let rev := (img.getD 8 0).toNat
        let cks := if t = .rsdp then (img.getD 8 0).toNat else (img.getD 9 0).toNat
        let ecks := (img.getD 32 0).toNat
        let (total, rows) := Spec.fixedRows t oem c doneOps (if t = .rsdp ∨ t = .facs then 0 else rev) cks ecks
        match Spec.conforms total rows img with
        | some e => fails := fails ++ [⟨"prop", layoutTag, "layout", s!"{tname} obs#{i}: {e}"⟩]
        | none => pure ()
        -- C11 (FADT, TCPA server): an option's own fields hold the reference value, every other
        -- byte is what the option-free table (observation 0) has; the checksum byte is C01's
        if i = 0 then img0 := img
        if (t = .fadt ∨ t = .tcpas) ∧ i > 0 ∧ img0.length = img.length then
          let (_, rows0) := Spec.fixedRows t oem c [] rev cks ecks
          let ref := Spec.render rows
          let ref0 := Spec.render rows0
          if ref.length = img.length ∧ ref0.length = img.length then
            let idx := (List.range img.length).filter (· ≠ 9)
            match idx.find? (fun p => ref.getD p 0 ≠ ref0.getD p 0 ∧ img.getD p 0 ≠ ref.getD p 0) with
            | some p => fails := fails ++ [⟨"prop", "C11", "option-own-field", s!"{tname} obs#{i}: byte {p} governed by the calls made is {img.getD p 0}, reference {ref.getD p 0}"⟩]
            | none => pure ()
            match idx.find? (fun p => ref.getD p 0 = ref0.getD p 0 ∧ img.getD p 0 ≠ img0.getD p 0) with
            | some p => fails := fails ++ [⟨"prop", "C11", "option-frame", s!"{tname} obs#{i}: byte {p} outside the fields of the calls made changed from {img0.getD p 0} to {img.getD p 0}"⟩]
            | none => pure ()
      i := i + 1
    return fails
  | _ => return bad "header"

/-- stream `misc`: `gaddr io|mmio tsize addr | hex` and `gaspci width access dev fn reg | ser as_bytes` -/
def checkMisc (case impl : List String) : List Fail :=
  match case, impl with
  | ["gaddr", sp, ts, a], [hx] =>
    if hx = "panic" then
      (match nat? ts with
       | some t => if genericAddressRefuses t then [] else [⟨"corr", "C04", "unexpected-panic", s!"gaddr {sp} <{t}-byte T>: impl panics, model emits"⟩]
       | none => [⟨"corr", "C04", "parse", "gaddr"⟩])
    else if (nat? ts).any genericAddressRefuses then
      [⟨"prop", "C04", "unencodable-accepted", s!"GenericAddress::{sp} for a {ts}-byte register type: there is no Access Size code for it, yet a structure was returned ({hx})"⟩]
    else
    match nat? ts, nat? a, hexToBytes hx with
    | some ts, some a, some bs =>
      let io := sp = "io"
      let m := encFields (genericAddress io ts a)
      (if m ≠ bs then [⟨"corr", "C04", "model", s!"gaddr: model {bytesToHex m} impl {hx}"⟩] else []) ++
      (match Spec.conforms 12 (C04.genericAddressRows io ts a) bs with
       | some e => [⟨"prop", "C04", "layout", s!"GenericAddress: {e}"⟩]
       | none => [])
    | _, _, _ => [⟨"corr", "C04", "parse", "gaddr"⟩]
  | ["gaspci", w, ac, d, f, r], [hx, ab] =>
    match nat? w, nat? ac, nat? d, nat? f, nat? r, hexToBytes hx with
    | some w, some ac, some d, some f, some r, some bs =>
      let m := encFields (gasPciConfig w ac d f r)
      (if m ≠ bs then [⟨"corr", "C04", "model", s!"gaspci: model {bytesToHex m} impl {hx}"⟩] else []) ++
      (match Spec.conforms 12 (C04.gasPciRows w ac d f r) bs with
       | some e => [⟨"prop", "C04", "layout", s!"GAS::new_pci_config: {e}"⟩]
       | none => []) ++
      (if ab ≠ hx then [⟨"prop", "C14", "raw-form-differs", s!"GAS: as_bytes {ab} serialised {hx}"⟩] else [])
    | _, _, _, _, _, _ => [⟨"corr", "C04", "parse", "gaspci"⟩]
  | ["lens"], obs =>
    -- the static `len()` helpers (rsdp, gas, facs, tcpa server) against the serialised size
    (obs.zip ["Rsdp", "GAS", "FACS", "TpmServer1_2"]).filterMap fun (o, nm) =>
      match o.splitOn "." with
      | [a, b] => if a = b then none else some ⟨"prop", "C02", "len-helper", s!"{nm}::len() = {a}, serialised size {b}"⟩
      | _ => some ⟨"corr", "C02", "parse", "lens"⟩
  | ["pathfrom", _], [a, b] =>
    if a = b then [] else [⟨"prop", "C15", "path-from-vs-new", s!"Path::new gives {a}, Path::from gives {b}"⟩]
  | ["pkgdefault", _], [a, b] =>
    if a = b then [] else [⟨"prop", "C15", "pkgbuilder-default-vs-new", s!"new: {a} default: {b}"⟩]
  | _, _ => [⟨"corr", "C04", "parse", "misc"⟩]

end Drv
