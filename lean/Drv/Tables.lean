/-
  Driver for the table streams:
    tbl  <T> <oemid> <oemtable> <oemrev> <ctor nums> ; op ; op …      (append-engine tables)
  op    = [!]kind/nums/blobs/subs/opts        (`!` = the harness does not observe the image after this op)
  impl  = obs0 obs1 … img=<hex|->             obs = raw,h,H,L,S,B | raw,h | panic

  Two comparisons per op (DESIGN §5.3):
    full    the model encodes the entry from its arguments         → C04, C11, C12 (and C18 for refusals)
    opaque  the engine is fed the implementation's own entry bytes → C01, C02, C03, C05
-/
import Drv.Util
import Acpi.Tbl
import Acpi.Tables.Entries
import Acpi.Tables.Build
import Acpi.Tables.Wf
import Acpi.Tables.Whole
import Acpi.Tables.Linked
import Acpi.Spec.Walk
import Acpi.Spec.Counts
import Acpi.Spec.OptionOracle
import Acpi.Spec.Codes
import Acpi.Spec.Layout
import Acpi.Spec.FixedLayout
namespace Drv
open Acpi

/-- first index at which two byte strings differ -/
def firstDiffAt (a b : Bytes) : Nat :=
  let rec go : Bytes → Bytes → Nat → Nat
    | x :: xs, y :: ys, i => if x = y then go xs ys (i + 1) else i
    | _, _, i => i
  go a b 0

/-- which properties a difference at byte `off` of an entry of kind `k` built with `opts` speaks
    about: an HMAT locality structure's fixed part (incl. its flag byte) is C04/C11, its
    initiator/target lists and matrix are C04/C12 -/
def entryTag (k : Kind) (opts : List Opt) (off : Nat) : String :=
  if opts.isEmpty then "C04"
  else if k = .loc then (if off < 32 then "C04" else "C04,C12")
  else "C04"

/-- C11 on one entry built with options, given the implementation's bytes with the options
    (`raw`) and without them (`base`), and the two reference encodings: an option's own fields
    (where the references differ) must hold the reference value; every other byte must be what
    the option-free build has (frame).  Only meaningful when all four have the same length. -/
def c11Fails (k : Kind) (c : EArgs) (opts : List Opt) (raw base : Bytes) (name : String) : List Fail :=
  match Spec.rows k c opts, Spec.rows k c [] with
  | some (_, rs), some (_, rs0) =>
    let ref := Spec.render rs
    let ref0 := Spec.render rs0
    if ref.length ≠ raw.length ∨ ref0.length ≠ raw.length ∨ base.length ≠ raw.length then
      -- an option changed the size (pushes): fall back to "the entry is the reference encoding"
      if ref ≠ raw then [⟨"prop", "C11", "option-encoding", s!"{name}: not the set-semantics reference encoding"⟩] else []
    else
      let own := Spec.optionOwnViolation ref ref0 raw
      let frame := Spec.optionFrameViolation ref ref0 raw base
      (match own with
       | some p => [⟨"prop", "C11", "option-own-field", s!"{name}: byte {p} governed by the options is {raw.getD p 0}, reference {ref.getD p 0}"⟩]
       | none => []) ++
      (match frame with
       | some p => [⟨"prop", "C11", "option-frame", s!"{name}: byte {p} outside the options' fields changed from {base.getD p 0} to {raw.getD p 0}"⟩]
       | none => [])
  | _, _ => []

/-- C12 (HMAT): the structure is small (no size refusal can apply) and every `set_entry_value`,
    `set_initiator`, `set_target` call of the program addresses an index inside the
    `I × T` shape given to the constructor — such a program must be accepted -/
def locAllInRange (c : EArgs) (opts : List Opt) : Bool :=
  let i := c.num 4
  let t := c.num 5
  decide (i * t ≤ 65536) && decide (i ≤ 4096) && decide (t ≤ 4096) && c.num 0 < 4 &&
  opts.all fun o =>
    match o.name with
    | "sete" => decide (o.arg 0 < i) && decide (o.arg 1 < t)
    | "seti" => decide (o.arg 0 < i)
    | "sett" => decide (o.arg 0 < t)
    | _ => true

def kindOfString (s : String) : Option Kind :=
  match s with
  | "lapic" => some .lapic | "ioapic" => some .ioapic | "gicc" => some .gicc | "gicd" => some .gicd
  | "gicmsi" => some .gicmsi | "gicr" => some .gicr | "its" => some .its | "rintc" => some .rintc
  | "imsic" => some .imsic | "aplic" => some .aplic | "plic" => some .plic
  | "mem" => some .mem | "gi" => some .gi | "rintcaff" => some .rintcAff
  | "mpd" => some .mpd | "loc" => some .loc | "msc" => some .msc
  | "proc" => some .proc | "cache" => some .cache
  | "isa" => some .isa | "cmo" => some .cmo | "mmu" => some .mmu | "hart" => some .hart
  | "iommu" => some .iommu | "pcierc" => some .pcierc | "platform" => some .platform
  | "idmap" => some .idmap | "wire" => some .wire
  | "pcirange" => some .pcirange | "mmioep" => some .mmioep | "pciiommu" => some .pciiommu
  | "mmioiommu" => some .mmioiommu
  | "chbs" => some .chbs | "cfmws" => some .cfmws | "cxims" => some .cxims | "rdpas" => some .rdpas
  | "aerrp" => some .aerrp | "aerdev" => some .aerdev | "aerbr" => some .aerbr | "ghes" => some .ghes
  | "ghesv2" => some .ghesv2 | "notif" => some .notif | "ges" => some .ges | "ged" => some .ged
  | "ecam" => some .ecam | "xsdtentry" => some .xsdtEntry | "qosctrl" => some .qosctrl | "gas" => some .gas
  | _ => none

def parseNums (s : String) (sep : String) : Option (List Nat) :=
  if s = "-" ∨ s = "_" then some [] else (s.splitOn sep).mapM nat?

def parseBlobs (s : String) : Option (List Bytes) :=
  if s = "-" then some [] else (s.splitOn ",").mapM fun h => if h = "." then some [] else hexToBytes h

def parseSubs (s : String) : Option (List (List Nat)) :=
  if s = "-" then some [] else (s.splitOn ";").mapM fun t => parseNums t "."

def parseOpts (s : String) : Option (List Opt) :=
  if s = "-" then some [] else (s.splitOn ",").mapM fun t =>
    match t.splitOn "=" with
    | [n] => some { name := n }
    | [n, vs] => (parseNums vs ".").map fun v => { name := n, v }
    | _ => none

structure OpTok where
  observe : Bool
  kindName : String
  kind : Kind
  ctor : EArgs
  opts : List Opt
  /-- an entry outside the modelled builder programs (a `derive(Default)` value, a foreign type
      handed to `add_structure<T>`): no entry model, no layout claim — the table-level theorems for
      arbitrary entry bytes (C01, C02, C05) and C14 still apply -/
  opq : Bool := false

def parseOpTok (t : String) : Option OpTok := do
  let (obs, t) := if t.startsWith "!" then (false, (t.drop 1).toString) else (true, t)
  match t.splitOn "/" with
  | [k, ns, bs, ss, os] =>
    let kind ← if k = "dflt" then some Kind.gas else kindOfString k
    let n ← parseNums ns ","
    let b ← parseBlobs bs
    let s ← parseSubs ss
    let o ← parseOpts os
    some { observe := obs, kindName := (if k = "dflt" then s!"dflt/{n.headD 0}" else k), kind,
           ctor := { n := n.toArray, b := b.toArray, s }, opts := o, opq := k = "dflt" }
  | _ => none

def cfgOfTable (t : String) (ctor : List Nat) : Option TblCfg :=
  match t with
  | "xsdt" => some cfgXSDT | "mcfg" => some cfgMCFG
  | "madt" => some (cfgMADT (if ctor.getD 0 0 = 0 then 0 else UInt32.ofNat (ctor.getD 1 0)))
  | "srat" => some cfgSRAT | "hmat" => some cfgHMAT | "pptt" => some cfgPPTT | "cedt" => some cfgCEDT
  | "rhct" => some (cfgRHCT (UInt64.ofNat (ctor.getD 0 0)))
  | "rimt" => some cfgRIMT | "viot" => some cfgVIOT | "hest" => some cfgHEST | "rqsc" => some cfgRQSC
  | _ => none

def tableIdOf (t : String) (ctor : List Nat) : Option TableId :=
  match t with
  | "xsdt" => some .xsdt | "mcfg" => some .mcfg
  | "madt" => some (.madt (if ctor.getD 0 0 = 0 then 0 else UInt32.ofNat (ctor.getD 1 0)))
  | "srat" => some .srat | "hmat" => some .hmat | "pptt" => some .pptt | "cedt" => some .cedt
  | "rhct" => some (.rhct (UInt64.ofNat (ctor.getD 0 0)))
  | "rimt" => some .rimt | "viot" => some .viot | "hest" => some .hest | "rqsc" => some .rqsc
  | _ => none


/-! ### linked programs: the model computes the reference values itself (Acpi.Tables.Linked) -/

/-- where a `#k` handle reference sits in an op token -/
inductive Place where
  | n (i : Nat)                         -- i-th constructor number
  | s (i e : Nat)                       -- e-th element of the i-th sub-list
  | o (name : String) (occ arg : Nat)   -- `arg`-th value of the `occ`-th option called `name`
deriving Repr, DecidableEq

/-- `#k` ↦ (0, some k); a plain number ↦ (n, none) -/
def numOrRef (t : String) : Option (Nat × Option Nat) :=
  if t.startsWith "#" then (nat? (t.drop 1).toString).map fun k => (0, some k)
  else (nat? t).map fun n => (n, none)

/-- parse an op token that may contain `#k` references: the op with 0 at every reference, and the
    references with their places -/
def parseOpTokRefs (t : String) : Option (OpTok × List (Place × Nat)) := do
  let (obs, t) := if t.startsWith "!" then (false, (t.drop 1).toString) else (true, t)
  match t.splitOn "/" with
  | [k, ns, bs, ss, os] =>
    let kind ← if k = "dflt" then some Kind.gas else kindOfString k
    let nl ← if ns = "-" ∨ ns = "_" then some [] else (ns.splitOn ",").mapM numOrRef
    let b ← parseBlobs bs
    let subOf (t : String) : Option (List (Nat × Option Nat)) :=
      if t = "-" ∨ t = "_" then some [] else (t.splitOn ".").mapM numOrRef
    let sl ← if ss = "-" then some [] else (ss.splitOn ";").mapM subOf
    let optOf (t : String) : Option (String × List (Nat × Option Nat)) :=
      match t.splitOn "=" with
      | [n] => some (n, [])
      | [n, vs] => (subOf vs).map fun v => (n, v)
      | _ => none
    let ol ← if os = "-" then some [] else (os.splitOn ",").mapM optOf
    let nrefs := (nl.mapIdx fun i x => x.2.map fun k => (Place.n i, k)).filterMap id
    let srefs := (sl.mapIdx fun i l => (l.mapIdx fun e x => x.2.map fun k => (Place.s i e, k)).filterMap id).flatten
    -- (single pass: the occurrence index of each option among those of the same name)
    let orefs := (ol.foldl (fun (acc : List (String × Nat) × List (Place × Nat)) o =>
      let occ := ((acc.1.find? (·.1 = o.1)).map (·.2)).getD 0
      let cnt := if acc.1.any (·.1 = o.1) then acc.1.map (fun p => if p.1 = o.1 then (p.1, p.2 + 1) else p) else acc.1 ++ [(o.1, 1)]
      let here := if o.2.any (·.2.isSome) then (o.2.mapIdx fun a x => x.2.map fun k => (Place.o o.1 occ a, k)).filterMap id else []
      (cnt, if here.isEmpty then acc.2 else acc.2 ++ here)) ([], [])).2
    some ({ observe := obs, kindName := k, kind,
            ctor := { n := (nl.map (·.1)).toArray, b := b.toArray, s := sl.map (·.map (·.1)) },
            opts := ol.map fun o => { name := o.1, v := o.2.map (·.1) } }, nrefs ++ srefs ++ orefs)
  | _ => none

/-- the handle classes of the harness (`#k` = the k-th handle of that class) -/
inductive HClass where | procs | caches | isas | cmos | iommus | trans
deriving DecidableEq

def classOfKind : Kind → Option HClass
  | .proc => some .procs | .cache => some .caches | .isa => some .isas | .cmo => some .cmos
  | .iommu => some .iommus | .pciiommu | .mmioiommu => some .trans
  | _ => none

/-- which reference position of the linked-program model a place is, and which class it draws from -/
def refPosOf (op : OpTok) (pl : Place) : Option (RefPos × HClass) :=
  match op.kind, pl with
  | .proc, .n 0 => some (.procParent, .procs)
  | .proc, .o "cache" occ 0 => some (.procCache occ, .caches)
  | .cache, .o "next" occ 0 =>
    if occ + 1 = (op.opts.filter (·.name = "next")).length then some (.cacheNext, .caches) else none
  | .hart, .n 1 => some (.hartIsa, .isas)
  | .hart, .o "cmo" occ 0 => some (.hartCmo occ, .cmos)
  | .pcirange, .n 8 => some (.viotTrans, .trans)
  | .mmioep, .n 2 => some (.viotTrans, .trans)
  | .pcierc, .s i 3 => some (.idmapDst i, .iommus)
  | .platform, .s i 3 => some (.idmapDst i, .iommus)
  | _, _ => none

/-- the linked program of a case: every `#k` becomes "the handle returned by add call j" -/
def linkedOfTokens (toks : List String) : Option (List LAddOp) := do
  let parsed ← toks.mapM parseOpTokRefs
  let mut out : List LAddOp := []
  let mut adds : List (HClass × Nat) := []      -- (class, add index) of the handle-returning calls so far
  let mut i := 0
  for (op, refs) in parsed do
    let aop : AddOp := { k := op.kind, ctor := op.ctor, opts := op.opts }
    let mut rs : List (RefPos × Nat) := []
    for (pl, k) in refs do
      match refPosOf op pl with
      | none => pure ()
      | some (pos, cls) =>
        match ((adds.filter (·.1 = cls)).map (·.2))[k]? with
        | some j => if (getRef pos aop).isSome then rs := rs ++ [(pos, j)]
        | none => pure ()
    out := out ++ [{ op := aop, refs := rs }]
    match classOfKind op.kind with
    | some c => adds := adds ++ [(c, i)]
    | none => pure ()
    i := i + 1
  return out

structure Obs where
  raw : Bytes
  handle : Option Nat
  full : Option (Bytes × Nat × Nat × Nat)    -- H, L, S, B
  refs : List Nat := []                       -- handle values the harness resolved `#k` to, in order
  addPanicked : Bool := false                 -- the add call panicked, but the entry serialised alone to `raw`

def parseObs (t : String) : Option (Option Obs) :=   -- none = malformed; some none = panic
  if t = "panic" then some none else
  if t.startsWith "serok:" then
    let h := (t.drop 6).toString
    (if h = "-" ∨ h = "" then some [] else hexToBytes h).map fun raw =>
      some { raw, handle := none, full := none, refs := [], addPanicked := true }
  else
  match t.splitOn "," with
  | [r, h, rf] => do
    let raw ← if r = "-" then some [] else hexToBytes r
    let refs ← parseNums rf "."
    some (some { raw, handle := if h = "-" then none else nat? h, full := none, refs })
  | [r, h, hd, l, s, b, rf] => do
    let raw ← if r = "-" then some [] else hexToBytes r
    let hd ← hexToBytes hd
    let l ← nat? l; let s ← nat? s; let b ← nat? b
    let refs ← parseNums rf "."
    some (some { raw, handle := if h = "-" then none else nat? h, full := some (hd, l, s, b), refs })
  | _ => none

/-- replace the `#k` handle references of an op token by the values the harness resolved
    them to (in textual order); unresolved ones become 0 -/
def substRefs (t : String) (refs : List Nat) : String := Id.run do
  let parts := t.splitOn "#"
  match parts with
  | [] => return t
  | p0 :: rest =>
    let mut out := p0
    let mut rs := refs
    for p in rest do
      let v := rs.headD 0
      rs := rs.drop 1
      out := out ++ toString v ++ (p.dropWhile Char.isDigit).toString
    return out

/-- which kinds return a handle from their add operation -/
def returnsHandle (k : Kind) : Bool :=
  match k with
  | .proc | .cache | .isa | .cmo | .iommu | .pciiommu | .mmioiommu => true
  | _ => false

/-- compare the model's table head with the implementation's, attributing each difference -/
def headFails (tname : String) (i : Nat) (m impl : Bytes) (cw cntOff : Nat) : List Fail := Id.run do
  if m.length ≠ impl.length then
    return [⟨"corr", "C03,C04", "head-length", s!"{tname} op#{i}: model head {m.length} bytes, impl {impl.length}"⟩]
  let mut fs : List Fail := []
  -- the checksum byte is a function of all the other bytes: its difference speaks about C01 only
  -- when every other head byte agrees (otherwise it is explained by that other difference, and
  -- whether the implementation's image still sums to zero is decided by the sum oracle)
  let others (bs : Bytes) : Bytes := bs.mapIdx fun j b => if j = 9 then 0 else b
  if m.getD 9 0 ≠ impl.getD 9 0 ∧ others m = others impl then
    fs := ⟨"corr", "C01", "checksum-byte", s!"{tname} op#{i}: model {m.getD 9 0} impl {impl.getD 9 0}"⟩ :: fs
  if (m.drop 4).take 4 ≠ (impl.drop 4).take 4 then
    fs := ⟨"corr", "C02", "length-field", s!"{tname} op#{i}"⟩ :: fs
  if cw > 0 ∧ (m.drop cntOff).take cw ≠ (impl.drop cntOff).take cw then
    fs := ⟨"corr", "C03", "count-field", s!"{tname} op#{i}: model {bytesToHex ((m.drop cntOff).take cw)} impl {bytesToHex ((impl.drop cntOff).take cw)}"⟩ :: fs
  let mask (bs : Bytes) : Bytes := bs.mapIdx fun j b =>
    if (4 ≤ j ∧ j < 8) ∨ j = 9 ∨ (cw > 0 ∧ cntOff ≤ j ∧ j < cntOff + cw) then 0 else b
  if mask m ≠ mask impl then
    fs := ⟨"corr", "C04", "head-constants", s!"{tname} op#{i}: model {bytesToHex m} impl {bytesToHex impl}"⟩ :: fs
  return fs

/-- C04 on the part of a table that precedes its entries: header constants, OEM fields, the
    table's own fixed fields (e.g. the SRAT's must-be-one dword, array offsets), count -/
def headLayoutFails (tname : String) (i : Nat) (oem : Oem) (ctor : List Nat) (h : Bytes) (count : Nat) : List Fail :=
  let len := (readAt h 4 4).getD 0
  let rev := (h.getD 8 0).toNat
  let cks := (h.getD 9 0).toNat
  match Spec.tableHeadRows tname oem ctor len rev cks count with
  | none => []
  | some (total, rows) =>
    match Spec.conforms total rows h with
    | some e => [⟨"prop", "C04", "table-head-layout", s!"{tname} op#{i}: {e}"⟩]
    | none => []

/-- case `tbl T oemid oemtable oemrev ctor ; op ; …` -/
def checkTbl (case impl : List String) : List Fail := Id.run do
  -- split the case into header tokens and op tokens
  let groups := (case.foldl (fun (acc : List (List String)) t =>
    if t = ";" then [] :: acc else match acc with
      | g :: gs => (t :: g) :: gs
      | [] => [[t]]) [[]]).reverse.map List.reverse
  let hd := groups.headD []
  let opToks := (groups.drop 1).map (fun g => g.headD "")
  let bad (m : String) : List Fail := [⟨"corr", "C01,C02,C03,C04,C05,C11,C12", "parse", m⟩]
  match hd with
  | [tname, oid, otab, orev, ctorS] =>
    let some oid := hexToBytes oid | return bad "oem id"
    let some otab := hexToBytes otab | return bad "oem table"
    let some orev := u32? orev | return bad "oem rev"
    let some ctor := parseNums ctorS "," | return bad "ctor"
    let some cfg := cfgOfTable tname ctor | return bad "table"
    let some shape := Spec.shapeOf tname | return bad "shape"
    let twinDiff := impl.any (fun t => t = "twin=DIFF")
    let impl := impl.filter (fun t => ¬ t.startsWith "twin=")
    let obsToks := impl.filter (fun t => ¬ t.startsWith "img=")
    let imgTok := (impl.find? (fun t => t.startsWith "img=")).map (fun t => (t.drop 4).toString)
    let some obs := obsToks.mapM parseObs | return bad "observation"
    if obs.length = 0 then return bad "no observation"
    let rawOpToks := opToks
    let opToks := (List.range opToks.length).map fun i =>
      let refs := match obs[i + 1]? with | some (some o) => o.refs | _ => []
      substRefs (opToks.getD i "") refs
    let some ops := opToks.mapM parseOpTok | return bad "op token"
    let cntOff := 36 + cfg.pre.length
    -- the table-header revision byte is an observed parameter of the reference (DESIGN §4):
    -- a revision bump is not a property violation
    let cfg : TblCfg := match obs[0]? with
      | some (some o0) => (match o0.full with
        | some (h, _, _, _) => { cfg with rev := h.getD 8 cfg.rev }
        | none => cfg)
      | _ => cfg
    let mut fails : List Fail := []
    if twinDiff then
      fails := fails ++ [⟨"prop", "C14", "twin-tables-differ", s!"{tname}: a second table instance fed the same program, call by call interleaved with the first, returned different handles or a different image"⟩]
    -- (the offset limit of VIOT is decided by `tOff` below, never by the Length-fed copy)
    let mut t := Tbl.new { cfg with maxOffset := none } ⟨oid, otab, orev⟩
    -- a second copy of the engine in which every entry claims exactly its serialised size: the
    -- reference for handle values (the code advances its offset and its Length separately)
    let mut tOff := Tbl.new cfg ⟨oid, otab, orev⟩
    let mut prevLenField : Nat := 0
    let mut prevImgLen : Nat := 0               -- image size at the last full observation
    let mut prevImgAt : Nat := 0                -- … which followed op number prevImgAt
    let mut added : Array (Nat × Bytes) := #[]     -- (spec type code, raw) of the entries added
    let mut bodyLen : Nat := 0
    let mut nRdpas : Nat := 0
    let mut handles : List (Nat × Nat × Kind) := []   -- (handle value, entry index, kind)
    let mut hasImsic := false
    let mut hasOpaque := false
    let mut bodyDig := fnvInit
    let mut ended := false
    -- observation 0: after `new`
    match obs[0]! with
    | some o0 =>
      match o0.full with
      | some (h, l, s, b) =>
        fails := fails ++ headFails tname 0 t.head h cfg.cw cntOff
        prevLenField := (readAt h 4 4).getD 0
        prevImgLen := l
        if s ≠ 0 then fails := fails ++ [⟨"prop", "C01", "sum-nonzero", s!"{tname} after new: image sums to {s}"⟩]
        if prevLenField ≠ l then fails := fails ++ [⟨"prop", "C02", "length-field", s!"{tname} after new: Length {prevLenField}, image {l} bytes"⟩]
        if b ≠ fnvInit.toNat ∨ l ≠ h.length then fails := fails ++ [⟨"prop", "C03", "body-not-empty", s!"{tname} after new"⟩]
        fails := fails ++ headLayoutFails tname 0 ⟨oid, otab, orev⟩ ctor h 0
      | none => fails := fails ++ bad "first observation must be full"
    | none => return [⟨"corr", "C01,C02,C03,C04,C05", "new-panics", tname⟩]
    if obs.length ≠ ops.length + 1 ∧ ¬ (obs.any fun o => match o with | none => true | some x => x.addPanicked) then return bad s!"{ops.length} ops but {obs.length} observations"
    let mut i := 0
    for op in ops do
      i := i + 1
      if ended then break
      let some ob := obs[i]? | break
      if op.opq then
        hasOpaque := true
        match (match ob with | some o => if o.addPanicked then none else some o | none => none) with
        | none => ended := true      -- refused (e.g. a second IMSIC): nothing is claimed about opaque entries alone
        | some o =>
          let claimed : Nat := match o.full with
            | some (h, _, _, _) => ((readAt h 4 4).getD 0 + 2 ^ 32 - prevLenField) % 2 ^ 32
            | none => o.raw.length
          -- C02 speaks about the image: the Length field must grow by what the image grows by.  (An
          -- entry that is left out of the image, or lands there in another form than it serialises to on
          -- its own, is C03's business: the body-digest oracle below.)
          match o.full with
          | some (_, l, _, _) =>
            if prevImgAt + 1 = i ∧ claimed ≠ l - prevImgLen then
              fails := fails ++ [⟨"prop", "C02", "entry-length", s!"{tname} op#{i} {op.kindName}: Length grew by {claimed}, the image by {l - prevImgLen} bytes (the entry serialises to {o.raw.length} bytes on its own)"⟩]
          | none => pure ()
          let trueOffset := Tbl.firstOffset cfg + bodyLen
          let offAdd := tOff.add [] o.raw.length 0
          match (match offAdd with | none => none | some _ => t.add o.raw claimed (sum8 o.raw)) with
          | none => ended := true
          | some (_, t') =>
            let hnd := match offAdd with | some (h, _) => h | none => 0
            tOff := match offAdd with | some (_, x) => { x with body := [] } | none => tOff
            t := { t' with body := [] }
            bodyLen := bodyLen + o.raw.length
            bodyDig := fnvBytes bodyDig o.raw
            added := added.push (0, o.raw)
            match o.handle with
            | some hv =>
              if hv ≠ hnd then
                fails := fails ++ [⟨"corr", "C05", "handle", s!"{tname} op#{i} {op.kindName}: model handle {hnd} impl {hv}"⟩]
              if hv ≠ trueOffset then
                fails := fails ++ [⟨"prop", "C05", "handle-not-offset", s!"{tname} op#{i} {op.kindName}: handle {hv}, node begins at {trueOffset}"⟩]
            | none => pure ()
            match o.full with
            | some (h, l, s, b) =>
              fails := fails ++ headFails tname i t.head h cfg.cw cntOff
              let lf := (readAt h 4 4).getD 0
              prevLenField := lf
              prevImgLen := l
              prevImgAt := i
              if s ≠ 0 then fails := fails ++ [⟨"prop", "C01", "sum-nonzero", s!"{tname} op#{i} {op.kindName}: image sums to {s}"⟩]
              if lf ≠ l then
                fails := fails ++ [⟨"prop", "C02", "length-field", s!"{tname} op#{i} {op.kindName}: Length {lf}, image {l} bytes"⟩]
              if b ≠ bodyDig.toNat ∨ l ≠ t.head.length + bodyLen then
                fails := fails ++ [⟨"prop", "C03", "body-not-entries", s!"{tname} op#{i}: the body is not the added entries in insertion order"⟩]
              match shape.count with
              | some (off, w) =>
                if (readAt h off w) ≠ some (added.size % 256 ^ w) then
                  fails := fails ++ [⟨"prop", "C03", "count-field", s!"{tname} op#{i}: count field {(readAt h off w).getD 0}, {added.size} entries added"⟩]
              | none => pure ()
            | none => prevLenField := (prevLenField + claimed) % 2 ^ 32
        continue
      -- full model of the entry
      let built := buildEntry op.kind op.ctor op.opts
      -- the add call panicked although the entry serialised alone: fine when the refusal is the
      -- table's (offset limit, second IMSIC); when the model says the *entry* is oversized, its public
      -- `Aml` impl returned bytes whose length / count field cannot describe them (C18)
      match ob with
      | some o =>
        if o.addPanicked then
          match built with
          | .error e =>
            if e = "refused" then
              fails := fails ++ [⟨"prop", "C18", "standalone-not-refused", s!"{tname} op#{i} {op.kindName}: the table refuses the oversized entry, but serialising the entry alone returns {o.raw.length} bytes"⟩]
          | .ok _ => pure ()
      | none => pure ()
      let ob : Option Obs := match ob with | some o => if o.addPanicked then none else some o | none => none
      let dupImsic : Bool := tname = "madt" && op.kind = .imsic && hasImsic
      let optTag := if op.opts.isEmpty then "C04" else if op.kind = .loc then "C04,C12" else "C04"
      match ob with
      | none =>
        ended := true
        -- implementation panicked on this op
        let engineRefuses : Bool := match built with
          | .ok a => (tOff.add [] (lenOf op.kind a) 0).isNone
          | .error _ => false
        match built with
        | .error _ => pure ()
        | .ok _ =>
          if !dupImsic && !engineRefuses then
            fails := fails ++ [⟨"corr", optTag, "unexpected-panic", s!"{tname} op#{i} {op.kindName}: impl panics, model emits"⟩]
        if op.kind = .loc ∧ locAllInRange op.ctor op.opts then
          fails := fails ++ [⟨"prop", "C12", "in-range-pair-refused", s!"{tname} op#{i} loc {op.ctor.num 4}x{op.ctor.num 5}: an assignment with in-range indices was refused"⟩]
      | some o =>
        -- (a) full mode: entry bytes from arguments
        match built with
        | .error e =>
          fails := fails ++ [⟨"corr", (if e = "refused" then optTag ++ ",C18" else optTag), "missing-panic", s!"{tname} op#{i} {op.kindName}: model panics ({e}), impl emits {bytesToHex o.raw}"⟩]
          if e = "refused" then
            fails := fails ++ [⟨"prop", "C18", "not-refused", s!"{tname} op#{i} {op.kindName}: an oversized count/size was serialised"⟩]
        | .ok a =>
          let mraw := encFields (fields op.kind a)
          let dtag := entryTag op.kind op.opts (firstDiffAt mraw o.raw)
          if mraw ≠ o.raw then
            fails := fails ++ [⟨"corr", dtag, "entry-bytes", s!"{tname} op#{i} {op.kindName}: model {bytesToHex mraw} impl {bytesToHex o.raw}"⟩]
          match Spec.layoutOracle op.kind op.ctor op.opts o.raw with
          | some e => fails := fails ++ [⟨"prop", dtag, "layout", s!"{tname} op#{i} {op.kindName}: {e}"⟩]
          | none => pure ()
          if dupImsic then
            fails := fails ++ [⟨"corr", "C04", "missing-panic", s!"{tname} op#{i}: second IMSIC accepted"⟩]
        -- (b) opaque mode: the engine fed with the implementation's entry bytes
        let claimed : Nat := match o.full with
          | some (h, _, _, _) => ((readAt h 4 4).getD 0 + 2 ^ 32 - prevLenField) % 2 ^ 32
          | none => match built with | .ok a => lenOf op.kind a | .error _ => o.raw.length
        match built with
        | .ok a =>
          if o.full.isSome ∧ lenOf op.kind a ≠ claimed then
            fails := fails ++ [⟨"corr", "C02", "claimed-length", s!"{tname} op#{i} {op.kindName}: model len() {lenOf op.kind a}, Length grew by {claimed}"⟩]
        | .error _ => pure ()
        match o.full with
        | some (_, l, _, _) =>
          if prevImgAt + 1 = i ∧ claimed ≠ l - prevImgLen then
            fails := fails ++ [⟨"prop", "C02", "entry-length", s!"{tname} op#{i} {op.kindName}: Length grew by {claimed}, the image by {l - prevImgLen} bytes (the entry serialises to {o.raw.length} bytes on its own)"⟩]
        | none => pure ()
        let trueOffset := Tbl.firstOffset cfg + bodyLen
        let offAdd := tOff.add [] o.raw.length 0
        match (match offAdd with | none => none | some _ => t.add o.raw claimed (sum8 o.raw)) with
        | none =>
          fails := fails ++ [⟨"corr", "C05,C18", "missing-panic", s!"{tname} op#{i} {op.kindName}: engine refuses (offset overflow), impl accepts"⟩]
          fails := fails ++ [⟨"prop", "C18", "not-refused", s!"{tname} op#{i}: node offset beyond its field"⟩]
          ended := true
        | some (_, t') =>
          let hnd := match offAdd with | some (h, _) => h | none => 0
          tOff := match offAdd with | some (_, x) => { x with body := [] } | none => tOff
          t := { t' with body := [] }     -- the body is kept in `added`; head and checksum do not depend on it
          bodyLen := bodyLen + o.raw.length
          if op.kind = .rdpas then nRdpas := nRdpas + 1
          bodyDig := fnvBytes bodyDig o.raw
          let tc := match built with | .ok a => Spec.typeCode op.kind a | .error _ => Spec.typeCode op.kind op.ctor
          added := added.push (tc, o.raw)
          if op.kind = .imsic then hasImsic := true
          -- handles
          if returnsHandle op.kind then
            match o.handle with
            | some hv =>
              handles := handles ++ [(hv, added.size - 1, op.kind)]
              if hv ≠ hnd then
                fails := fails ++ [⟨"corr", "C05", "handle", s!"{tname} op#{i} {op.kindName}: model handle {hnd} impl {hv}"⟩]
              if hv ≠ trueOffset then
                fails := fails ++ [⟨"prop", "C05", "handle-not-offset", s!"{tname} op#{i} {op.kindName}: handle {hv}, node begins at {trueOffset}"⟩]
            | none => fails := fails ++ [⟨"corr", "C05", "handle-missing", s!"{tname} op#{i}"⟩]
          -- self-description of the entry (C03)
          match Spec.entryHdr shape.kind o.raw with
          | some (ty, len) =>
            if ty ≠ tc ∨ len ≠ o.raw.length then
              fails := fails ++ [⟨"prop", "C03", "entry-header", s!"{tname} op#{i} {op.kindName}: announces type {ty} length {len}; is type {tc}, {o.raw.length} bytes"⟩]
          | none => fails := fails ++ [⟨"prop", "C03", "entry-header", s!"{tname} op#{i} {op.kindName}: no readable header"⟩]
          match Spec.entryCountsOracle op.kind o.raw with
          | some e => fails := fails ++ [⟨"prop", "C03", "entry-counts", s!"{tname} op#{i} {op.kindName}: {e}"⟩]
          | none => pure ()
          -- table-level observation
          match o.full with
          | some (h, l, s, b) =>
            fails := fails ++ headFails tname i t.head h cfg.cw cntOff
            fails := fails ++ headLayoutFails tname i ⟨oid, otab, orev⟩ ctor h (added.size % 2 ^ 32)
            let lf := (readAt h 4 4).getD 0
            prevLenField := lf
            prevImgLen := l
            prevImgAt := i
            if s ≠ 0 then fails := fails ++ [⟨"prop", "C01", "sum-nonzero", s!"{tname} op#{i} {op.kindName}: image sums to {s}"⟩]
            if lf ≠ l then
              let nm := if nRdpas > 0 ∧ l = lf + nRdpas then "length-field-after-rdpas" else "length-field"
              fails := fails ++ [⟨"prop", "C02", nm, s!"{tname} op#{i} {op.kindName}: Length {lf}, image {l} bytes"⟩]
            if b ≠ bodyDig.toNat ∨ l ≠ t.head.length + bodyLen then
              fails := fails ++ [⟨"prop", "C03", "body-not-entries", s!"{tname} op#{i}: the body is not the added entries in insertion order"⟩]
            match shape.count with
            | some (off, w) =>
              if (readAt h off w) ≠ some (added.size % 256 ^ w) then
                fails := fails ++ [⟨"prop", "C03", "count-field", s!"{tname} op#{i}: count field {(readAt h off w).getD 0}, {added.size} entries added"⟩]
            | none => pure ()
          | none => prevLenField := (prevLenField + claimed) % 2 ^ 32
    -- final image: the specification's walk
    match imgTok with
    | some "-" => pure ()
    | none => pure ()
    | some hx =>
      match hexToBytes hx with
      | none => fails := fails ++ bad "img hex"
      | some img =>
        if sum8 img ≠ 0 then fails := fails ++ [⟨"prop", "C01", "sum-nonzero", s!"{tname} final image"⟩]
        if readAt img 4 4 ≠ some img.length then
          let nm := if nRdpas > 0 ∧ readAt img 4 4 = some (img.length - nRdpas) then "length-field-after-rdpas" else "length-field"
          fails := fails ++ [⟨"prop", "C02", nm, s!"{tname} final image"⟩]
        let addedL := added.toList
        let mimg := ({ t with body := addedL.map (fun e => e.2) } : Tbl).image
        if img ≠ mimg then
          let hl := t.head.length
          if img.length = mimg.length ∧ img.drop hl = mimg.drop hl then
            fails := fails ++ (headFails tname 9999 t.head (img.take hl) cfg.cw cntOff)
          else
            fails := fails ++ [⟨"corr", "C03", "final-image-body", s!"{tname}: the body of the model image differs from the implementation's"⟩]
        -- the whole-program model (Acpi.Tables.Whole.runTable — what the whole-table theorems
        -- C01–C05 `whole_*` are about): same image, the revision byte being an observed parameter
        -- and the checksum byte a function of the rest
        -- (the whole-program model re-runs every entry's builder program; for a case with tens of
        --  thousands of builder calls — the 65 535-handle boundary — the op-by-op comparison above is kept
        --  and this second, composed run is left to the smaller cases)
        let ncalls : Nat := ops.foldl (fun (n : Nat) op => n + op.opts.length) 0
        match (if hasOpaque || decide (ncalls > 20000) then none else tableIdOf tname ctor) with
        | none => pure ()
        | some T =>
          let wops := ops.map fun op => ({ k := op.kind, ctor := op.ctor, opts := op.opts } : AddOp)
          match runTable T ⟨oid, otab, orev⟩ wops with
          | none => pure ()       -- a refusal: decided op by op above
          | some (_, tm) =>
            let strip (bs : Bytes) : Bytes := bs.take 8 ++ bs.drop 10
            if strip tm.image ≠ strip img then
              fails := fails ++ [⟨"corr", "C04", "whole-program-image", s!"{tname}: runTable's image differs from the implementation's at byte {firstDiffAt (strip tm.image) (strip img)} (bytes 8, 9 left out)"⟩]
            else
              -- the linked program (Acpi.Tables.Linked.runLinked — what C05.linked_references_resolve is
              -- about): here the model computes every reference value itself, as the handle its own
              -- engine returned for the add call referred to, instead of taking it from the harness
              match linkedOfTokens rawOpToks with
              | none => fails := fails ++ bad "linked program"
              | some ls =>
                -- (a program without references is its own linking: runLinked = runTable, already compared)
                if ls.all (·.refs.isEmpty) then pure ()
                else if refsWellTyped ls then
                  match runLinked T ⟨oid, otab, orev⟩ ls with
                  | none => fails := fails ++ [⟨"corr", "C05", "linked-program", s!"{tname}: runTable accepts the program with the implementation's reference values, runLinked refuses it"⟩]
                  | some (lhs, tl, _) =>
                    if strip tl.image ≠ strip img then
                      fails := fails ++ [⟨"corr", "C05", "linked-program-image", s!"{tname}: with reference fields computed by the model (handles of earlier add calls) the image differs from the implementation's at byte {firstDiffAt (strip tl.image) (strip img)}"⟩]
                    for (hv, idx, _) in handles do
                      if lhs[idx]? ≠ some hv then
                        fails := fails ++ [⟨"corr", "C05", "linked-handle", s!"{tname}: add call #{idx}: model handle {lhs[idx]?.getD 0}, implementation {hv}"⟩]
                else
                  fails := fails ++ [⟨"note", "-", "linked-program-not-well-typed", tname⟩]
        if hasOpaque then return fails     -- entries without a layout claim: no walk, no handle typing
        match Spec.tableEntries shape img with
        | .error e => fails := fails ++ [⟨"prop", "C03", if nRdpas > 0 then "walk-with-rdpas" else "walk", s!"{tname}: {e}"⟩]
        | .ok es =>
          if es ≠ addedL then fails := fails ++ [⟨"prop", "C03", "walk", s!"{tname}: the walk finds {es.length} entries that are not the {addedL.length} added"⟩]
          -- every handle is a walk boundary of the expected type
          let offs := es.foldl (fun (acc : List Nat × Nat) e => (acc.1 ++ [acc.2], acc.2 + e.2.length)) ([], shape.first)
          for (hv, idx, k) in handles do
            if offs.1[idx]? ≠ some hv ∨ (es[idx]?.map (·.1)) ≠ some (Spec.typeCodeConst k) then
              fails := fails ++ [⟨"prop", "C05", "handle-resolves", s!"{tname}: handle {hv} does not resolve to node #{idx} of its kind"⟩]
    return fails
  | _ => return bad "header"

end Drv

namespace Drv
open Acpi

/-- an opaque entry alone: only C14 applies (raw form = serialised form, byte-sum helper, sinks, twice) -/
def checkEntOpaque (op : OpTok) (impl : List String) : List Fail :=
  match impl with
  | [hx, same, ab, us, sinks, _] =>
    match hexToBytes hx with
    | none => [⟨"corr", "C14", "parse", "hex"⟩]
    | some raw =>
      (if same ≠ "same" then [⟨"prop", "C14", "nondeterministic", op.kindName⟩] else []) ++
      (if ab ≠ "~" ∧ ab ≠ hx then [⟨"prop", "C14", "raw-form-differs", s!"{op.kindName}: as_bytes {ab} serialised {hx}"⟩] else []) ++
      (if us ≠ "~" ∧ nat? us ≠ some (sum8 raw).toNat then [⟨"prop", "C14", "u8sum", s!"{op.kindName}: u8sum {us}, bytes sum to {(sum8 raw).toNat}"⟩] else []) ++
      (if sinks ≠ "ok" ∧ sinks ≠ "~" then [⟨"prop", "C14", "sink-dependent", s!"{op.kindName}: {sinks}"⟩] else [])
  | _ => []

/-- a modelled entry alone -/
def checkEntFull (op : OpTok) (impl : List String) : List Fail :=
  let built := buildEntry op.kind op.ctor op.opts
  let optTag := if op.opts.isEmpty then "C04" else if op.kind = .loc then "C04,C12" else "C04"
  let wfNote : List Fail := if entryWf op.kind op.ctor op.opts then [] else [⟨"note", "-", "non-wf-case", op.kindName⟩]
  wfNote ++
  match impl with
  | ["panic"] =>
    (match built with
     | .ok _ => [⟨"corr", optTag, "unexpected-panic", s!"{op.kindName}: impl panics, model emits"⟩]
     | .error _ => []) ++
    -- C12: every in-range (initiator, target) pair is accepted
    (if op.kind = .loc ∧ locAllInRange op.ctor op.opts then
       [⟨"prop", "C12", "in-range-pair-refused", s!"loc {op.ctor.num 4}x{op.ctor.num 5}: an assignment with in-range indices was refused"⟩]
     else [])
  | [hx, same, ab, us, sinks, baseS] =>
    match hexToBytes hx with
    | none => [⟨"corr", "C04", "parse", "hex"⟩]
    | some raw =>
      (match built with
       | .error e =>
         [⟨"corr", (if e = "refused" then optTag ++ ",C18" else optTag), "missing-panic", s!"{op.kindName}: model panics ({e}), impl emits"⟩] ++
         (if e = "refused" then [⟨"prop", "C18", "not-refused", s!"{op.kindName}: an oversized count/size was serialised"⟩] else [])
       | .ok a =>
         let mraw := entryBytes op.kind a
         let dtag := entryTag op.kind op.opts (firstDiffAt mraw raw)
         (if mraw ≠ raw then [⟨"corr", dtag, "entry-bytes", s!"{op.kindName}: model {bytesToHex mraw} impl {hx}"⟩] else []) ++
         (match Spec.layoutOracle op.kind op.ctor op.opts raw with
          | some e => [⟨"prop", dtag, "layout", s!"{op.kindName}: {e}"⟩]
          | none => [])) ++
      (if op.opts.isEmpty ∨ baseS = "~" then [] else
         match hexToBytes baseS with
         | some base => c11Fails op.kind op.ctor op.opts raw base op.kindName
         | none => []) ++
      (if same ≠ "same" then [⟨"prop", "C14", "nondeterministic", op.kindName⟩] else []) ++
      (if ab ≠ "~" ∧ ab ≠ hx then [⟨"prop", "C14", "raw-form-differs", s!"{op.kindName}: as_bytes {ab} serialised {hx}"⟩] else []) ++
      (if us ≠ "~" ∧ nat? us ≠ some (sum8 raw).toNat then [⟨"prop", "C14", "u8sum", s!"{op.kindName}: u8sum {us}, bytes sum to {(sum8 raw).toNat}"⟩] else []) ++
      (if sinks ≠ "ok" ∧ sinks ≠ "~" then [⟨"prop", "C14", "sink-dependent", s!"{op.kindName}: {sinks}"⟩] else [])
  | _ => [⟨"corr", "C04,C14", "parse", "observation"⟩]

/-- case `ent <op token>`  impl `<hex> same|DIFF <as_bytes hex|~> <u8sum|~> <sinks>` | `panic` -/
def checkEnt (case impl : List String) : List Fail :=
  match case with
  | [tokS] =>
    match parseOpTok tokS with
    | none => [⟨"corr", "C04,C11,C12,C14", "parse", "op token"⟩]
    | some op => if op.opq then checkEntOpaque op impl else checkEntFull op impl
  | _ => [⟨"corr", "C04,C14", "parse", "case"⟩]

end Drv
