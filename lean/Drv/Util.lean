/-
  Driver utilities: hex, tokens, FNV-1a-64.  Not part of the model; trusted only to
  shuttle bytes between the line protocol and the model's definitions.
-/
import Acpi.Basic
namespace Drv
open Acpi

def hexDigit (c : Char) : Option Nat :=
  if '0' ≤ c ∧ c ≤ '9' then some (c.toNat - '0'.toNat)
  else if 'a' ≤ c ∧ c ≤ 'f' then some (c.toNat - 'a'.toNat + 10)
  else if 'A' ≤ c ∧ c ≤ 'F' then some (c.toNat - 'A'.toNat + 10)
  else none

def hexToBytesAux : List Char → Bytes → Option Bytes
  | [], acc => some acc.reverse
  | [_], _ => none
  | a :: b :: rest, acc =>
    match hexDigit a, hexDigit b with
    | some x, some y => hexToBytesAux rest (UInt8.ofNat (16 * x + y) :: acc)
    | _, _ => none

/-- "-" is the empty string -/
def hexToBytes (s : String) : Option Bytes :=
  if s = "-" then some [] else hexToBytesAux s.toList []

def nibbleChar (n : Nat) : Char :=
  if n < 10 then Char.ofNat ('0'.toNat + n) else Char.ofNat ('a'.toNat + n - 10)

def bytesToHex (bs : Bytes) : String :=
  if bs.isEmpty then "-" else
  String.ofList (bs.foldr (fun b acc => nibbleChar (b.toNat / 16) :: nibbleChar (b.toNat % 16) :: acc) [])

def fnvInit : UInt64 := 0xcbf29ce484222325
@[inline] def fnvByte (h : UInt64) (b : UInt8) : UInt64 := (h ^^^ b.toUInt64) * 0x100000001b3
def fnvBytes (h : UInt64) (bs : Bytes) : UInt64 := bs.foldl fnvByte h

def toks (s : String) : List String := (s.splitOn " ").filter (· ≠ "")

def nat? (s : String) : Option Nat := s.toNat?
def u8? (s : String) : Option UInt8 := do let n ← s.toNat?; if n < 256 then some (UInt8.ofNat n) else none
def u16? (s : String) : Option UInt16 := do let n ← s.toNat?; if n < 65536 then some (UInt16.ofNat n) else none
def u32? (s : String) : Option UInt32 := do let n ← s.toNat?; if n < 4294967296 then some (UInt32.ofNat n) else none
def u64? (s : String) : Option UInt64 := do let n ← s.toNat?; if n < 18446744073709551616 then some (UInt64.ofNat n) else none

/-- verdict of one case: list of failures `(kind, props, check, detail)` -/
structure Fail where
  kind : String      -- "prop" (oracle fails on the implementation's bytes) | "corr" (model ≠ impl)
  props : String     -- comma-separated property ids this check serves
  check : String
  detail : String

def Fail.render (f : Fail) (line : String) : String :=
  s!"F {f.kind} {f.props} {f.check} {f.detail} ## {line}"

end Drv
