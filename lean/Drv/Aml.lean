/-
  Driver for the AML streams (`aml`, `amlalt`, `amlbig`):
    case: <env> <prefix-notation term>     impl: <hex|panic> <alt hex|panic|~> <sinks>
-/
import Drv.Util
import Acpi.Spec.AmlFrame
import Acpi.Spec.ResTemplate
import Drv.AmlScalars
import Acpi.Aml.Term
import Acpi.Spec.Aml
import Acpi.Spec.Res
import Acpi.Spec.AmlWf
namespace Drv
open Acpi

def opOfString (s : String) : Option Op :=
  match s with
  | "zero" => some .zero | "one" => some .one | "ones" => some .ones
  | "u8" => some .u8 | "u16" => some .u16 | "u32" => some .u32 | "u64" => some .u64 | "usize" => some .usize
  | "str" | "sstr" => some .str | "path" => some .path | "eisa" => some .eisa | "uuid" => some .uuid
  | "buf" => some .buf | "bufterm" => some .bufterm | "arg" => some .arg | "local" => some .local_
  | "name" => some .name | "fieldname" => some .fieldname | "pkg" => some .pkg | "pkgb" => some .pkgb
  | "varpkg" => some .varpkg | "rt" => some .rt | "mem32" => some .mem32 | "io" => some .io | "irq" => some .irq
  | "reg" => some .reg | "asmem" => some .asmem | "asio" => some .asio | "asbus" => some .asbus
  | "device" => some .device | "scope" => some .scope | "scoperaw" => some .scoperaw | "method" => some .method
  | "field" => some .field | "fnamed" => some .fnamed | "freserved" => some .freserved | "opregion" => some .opregion
  | "if" => some .if_ | "while" => some .while_ | "else" => some .else_ | "powerres" => some .powerres
  | "eq" => some .eq | "lt" => some .lt | "gt" => some .gt | "ne" => some .ne | "ge" => some .ge | "le" => some .le
  | "store" => some .store | "mutex" => some .mutex | "acquire" => some .acquire | "release" => some .release
  | "notify" => some .notify | "objtype" => some .objtype | "sizeof" => some .sizeof | "ret" => some .ret
  | "deref" => some .deref | "add" => some .add | "concat" => some .concat | "subtract" => some .subtract
  | "multiply" => some .multiply | "shl" => some .shl | "shr" => some .shr | "and" => some .and_ | "nand" => some .nand
  | "or" => some .or_ | "nor" => some .nor | "xor" => some .xor | "concatres" => some .concatres | "mod" => some .mod
  | "index" => some .index | "tostring" => some .tostring | "createdw" => some .createdw | "createqw" => some .createqw
  | "tobuffer" => some .tobuffer | "tointeger" => some .tointeger | "createfield" => some .createfield
  | "mid" => some .mid | "call" => some .call
  | _ => none

/-- (ints, blobs, kids): kids = some n fixed, none counted — same table as harness/src/s_aml.rs -/
def sigOf (s : String) : Nat × Nat × Option Nat :=
  match s with
  | "zero" | "one" | "ones" => (0, 0, some 0)
  | "u8" | "u16" | "u32" | "u64" | "usize" | "arg" | "local" | "freserved" => (1, 0, some 0)
  | "str" | "sstr" | "path" | "eisa" | "uuid" | "buf" | "fieldname" | "release" => (0, 1, some 0)
  | "bufterm" | "varpkg" | "objtype" | "sizeof" | "ret" | "deref" => (0, 0, some 1)
  | "name" => (0, 1, some 1)
  | "pkg" | "pkgb" | "rt" | "if" | "while" | "else" => (0, 0, none)
  | "mem32" | "asbus" => (3, 0, some 0)
  | "io" => (4, 0, some 0)
  | "irq" | "reg" | "asio" => (5, 0, some 0)
  | "asmem" => (7, 0, some 0)
  | "device" | "scope" | "scoperaw" | "call" => (0, 1, none)
  | "method" | "powerres" => (2, 1, none)
  | "field" => (3, 1, none)
  | "fnamed" | "mutex" | "acquire" => (1, 1, some 0)
  | "opregion" => (1, 1, some 2)
  | "eq" | "lt" | "gt" | "ne" | "ge" | "le" | "store" | "notify" | "tobuffer" | "tointeger" => (0, 0, some 2)
  | "createfield" | "mid" => (0, 0, some 4)
  | _ => (0, 0, some 3)

mutual
/-- parse one term from the token list -/
partial def parseAml (toks : List String) : Option (Aml × List String) :=
  match toks with
  | [] => none
  | opS :: rest =>
    match opOfString opS with
    | none => none
    | some op =>
      let (ni, nb, nk) := sigOf opS
      match (rest.take ni).mapM nat?, ((rest.drop ni).take nb).mapM hexToBytes with
      | some ints, some blobs =>
        if (rest.take ni).length ≠ ni ∨ ((rest.drop ni).take nb).length ≠ nb then none else
        let rest := rest.drop (ni + nb)
        let cnt : Option (Nat × List String) := match nk with
          | some n => some (n, rest)
          | none => match rest with
            | c :: r => (nat? c).map fun n => (n, r)
            | [] => none
        match cnt with
        | none => none
        | some (n, rest) =>
          match parseAmls n rest with
          | none => none
          | some (kids, rest) =>
            -- EISA / UUID: the char view travels in `ints`
            let ints := if op = .eisa ∨ op = .uuid then
                ((utf8Chars (blobs.headD [])).getD []).map Char.toNat else ints
            some (.node op ints blobs (AmlList.ofList kids), rest)
      | _, _ => none
partial def parseAmls (n : Nat) (toks : List String) : Option (List Aml × List String) :=
  match n with
  | 0 => some ([], toks)
  | n + 1 =>
    match parseAml toks with
    | none => none
    | some (a, r) => (parseAmls n r).map fun (as, r') => (a :: as, r')
end

def parseEnv (s : String) : Option Spec.Aml.Env :=
  if s = "-" then some [] else (s.splitOn ",").mapM fun t =>
    match t.splitOn ":" with
    | [h, a] => do let p ← hexToBytes h; let n ← nat? a; some (Spec.Aml.pathOf p, n)
    | _ => none

/-- the alternative construction path of the root node, in the model -/
def altOf : Aml → Option Aml
  | .node .scope i b k => some (.node .scoperaw i b k)
  | .node .scoperaw i b k => some (.node .scope i b k)
  | .node .pkg i b k => some (.node .pkgb i b k)
  | .node .pkgb i b k => some (.node .pkg i b k)
  | .node .str i b k => some (.node .str i b k)
  | .node .u64 i b k => some (.node .usize i b k)
  | .node .usize i b k => some (.node .u64 i b k)
  | _ => none

/-- case `<env> term…` impl `<hex|panic> <alt> <sinks>` -/
def checkAml (case impl : List String) : List Fail :=
  match case with
  | envS :: termToks =>
    match parseEnv envS, parseAml termToks with
    | some env, some (t, []) =>
      let model := t.enc
      let isRt := match t with | .node .rt _ _ _ => true | _ => false
      let tag := if isRt then "C06,C10" else "C06"
      match impl with
      | [out, alt, sinks] =>
        let main : List Fail :=
          if out = "panic" then
            (if model.isSome then [⟨"corr", tag, "unexpected-panic", "impl panics, model emits"⟩] else [])
          else match hexToBytes out with
            | none => [⟨"corr", tag, "parse", "hex"⟩]
            | some bs =>
              (match model with
               | none => [⟨"corr", tag ++ ",C18", "missing-panic", s!"model panics, impl emits {bs.length} bytes"⟩,
                          ⟨"prop", "C18", "not-refused", "an oversized count/size (or an invalid operand) was serialised"⟩] ++
                 -- the bytes exist, so the layout oracle of a bare descriptor is evaluated on them as well (C10):
                 -- a descriptor the model refuses and the implementation emits is judged on what it says
                 (match t with
                  | .node op ints _ _ =>
                    if Spec.isDescriptor op then
                      match Spec.Res.rows op ints with
                      | some (total, rs) =>
                        -- a value the reference assigns to a field must fit the field: `render` would truncate it
                        (match rs.find? (fun r => match r with | .num _ w v => decide (v ≥ 2 ^ (8 * w)) | _ => false) with
                         | some r => [⟨"prop", "C10", "descriptor-layout", s!"field at offset {r.off} (width {r.width}): the specification's value does not fit the field, yet a descriptor was emitted with {(bs.drop r.off).take r.width} there"⟩]
                         | none =>
                           match Spec.conforms total rs bs with
                           | some e => [⟨"prop", "C10", "descriptor-layout", e ++ " (a descriptor the model refuses was emitted)"⟩]
                           | none => [])
                      | none => []
                    else [])
               | some m =>
                 (if m ≠ bs then [⟨"corr", tag, "model", s!"model {bytesToHex (m.take 64)}… impl {bytesToHex (bs.take 64)}… (first difference at {firstDiffB m bs})"⟩] else []) ++
                 (match t with
                  | .node op ints _ _ =>
                    if Spec.isDescriptor op then
                      -- a bare resource descriptor is not an AML term: check it against its layout (C10)
                      match Spec.Res.rows op ints with
                      | some (total, rs) =>
                        (match Spec.conforms total rs bs with
                         | some e => [⟨"prop", "C10", "descriptor-layout", e⟩]
                         | none => [])
                      | none => []
                    else match Spec.Aml.parsesTo env bs (Spec.Aml.meaning t) with
                      | some e => [⟨"prop", "C06", "grammar-parse", e⟩]
                      | none => [])) ++
              (match t with
               | .node op _ blobs kids =>
                 (match Spec.c07Object op bs with
                  | some e => [⟨"prop", "C07", "object-pkglength", e⟩]
                  | none => []) ++
                 (if op = .field then
                    let ws := kids.toList.filterMap fun k => match k with
                      | .node .fnamed ints _ _ => some (true, ints.getD 0 0)
                      | .node .freserved ints _ _ => some (false, ints.getD 0 0)
                      | _ => none
                    if ws.length ≠ kids.toList.length then [] else
                    match Spec.NameString.decode (bs.drop (2 + ((Spec.PkgLength.decode (bs.drop 2)).map (·.2)).getD 1)) with
                    | some (_, _, after) =>
                      let nameLen := bs.length - (2 + ((Spec.PkgLength.decode (bs.drop 2)).map (·.2)).getD 1) - after.length
                      let _ := blobs
                      (match Spec.c07FieldEntries bs nameLen ws with
                       | some e => [⟨"prop", "C07", "field-entry-width", e⟩]
                       | none => [])
                    | none => []
                  else [])) ++
              (if isRt then
                 match t with
                 | .node _ _ _ kids =>
                   (match Spec.rtOracle kids.toList bs with
                    | some e => [⟨"prop", "C10", "resource-template", e⟩]
                    | none => []) ++
                   -- a child whose reference value does not fit its field (`render` would truncate it) cannot be
                   -- encoded: a template emitted with such a child is reported, whatever its bytes are
                   (kids.toList.filterMap fun k => match k with
                     | .node op ints _ _ =>
                       if Spec.isDescriptor op then
                         match Spec.Res.rows op ints with
                         | some (_, rs) =>
                           (rs.find? (fun r => match r with | .num _ w v => decide (v ≥ 2 ^ (8 * w)) | _ => false)).map fun r =>
                             (⟨"prop", "C10", "resource-template", s!"child descriptor: the specification's value for the field at offset {r.off} (width {r.width}) does not fit the field, yet the template was emitted"⟩ : Fail)
                         | none => none
                       else none)
               else [])
        let altF : List Fail :=
          if alt = "~" then [] else
          (if alt ≠ out then [⟨"prop", "C15", "alternative-path-differs", s!"main {out.take 80} alt {alt.take 80}"⟩] else []) ++
          (match altOf t with
           | some t' =>
             let m' := (t'.enc.map bytesToHex).getD "panic"
             -- C15's theorems treat the children's encodings as opaque: when the two implementation
             -- paths agree and the main encoding already disagrees with the model (reported under
             -- C06/C10), the alternative path's disagreement is that same one, not a framing matter
             let mainDiffers := out ≠ (model.map bytesToHex).getD "panic"
             if m' ≠ alt ∧ (alt ≠ out ∨ ¬ mainDiffers) then [⟨"corr", "C15", "model-alt", s!"model alt {m'.take 80} impl alt {alt.take 80}"⟩] else []
           | none => [])
        let sinkF : List Fail :=
          if sinks = "ok" ∨ sinks = "~" then [] else [⟨"prop", "C14", "sink-dependent", sinks⟩]
        let wfNote : List Fail := if Spec.Aml.wf env t then [] else [⟨"note", "-", "non-wf-term", ""⟩]
        wfNote ++ main ++ altF ++ sinkF
      | _ => [⟨"corr", "C06", "parse", "observation"⟩]
    | _, _ => [⟨"corr", "C06,C10,C15", "parse", "term"⟩]
  | [] => [⟨"corr", "C06", "parse", "empty"⟩]
where
  firstDiffB (a b : Bytes) : Nat :=
    let rec go : Bytes → Bytes → Nat → Nat
      | x :: xs, y :: ys, i => if x = y then go xs ys (i + 1) else i
      | _, _, i => i
    go a b 0

/-- `amlbig`: the same, plus `bufbig k` (a 2^28-byte-class BufferData reported as head + length) -/
def checkAmlBig (case impl : List String) : List Fail :=
  match case with
  | [_, "bufbig", kS] =>
    match nat? kS with
    | none => [⟨"corr", "C18", "parse", "bufbig"⟩]
    | some k =>
      let lenEnc := encUsize (UInt64.ofNat k)
      let body := lenEnc.length + k
      let refuses := pkgLenPanics body true
      match impl with
      | ["panic"] => if refuses then [] else [⟨"corr", "C18,C07", "unexpected-panic", s!"bufbig {k}"⟩]
      | [hd, ln] =>
        if refuses then [⟨"prop", "C18", "not-refused", s!"BufferData of {k} bytes: PkgLength ≥ 2^28 emitted"⟩] else
        let exp := [0x11] ++ pkgLen body true ++ lenEnc
        let expLen := 1 + (pkgLen body true).length + body
        if hd ≠ "head:" ++ bytesToHex ((exp ++ List.replicate 12 0x42).take 12) ∨ ln ≠ s!"len:{expLen}" then
          [⟨"corr", "C07,C18", "model", s!"bufbig {k}: expected head {bytesToHex (exp.take 12)} len {expLen}, got {hd} {ln}"⟩]
        else []
      | _ => [⟨"corr", "C18", "parse", "bufbig obs"⟩]
  | _ => checkAml case impl

end Drv
