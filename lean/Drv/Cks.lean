import Drv.Util
import Acpi.Checksum
namespace Drv
open Acpi

def parseCksOp (t : String) : Option Cks.Op :=
  match t.splitOn ":" with
  | ["a", v] => (u8? v).map .add
  | ["s", v] => (u8? v).map .sub
  | ["A", h] => (hexToBytes h).map .append
  | ["D", h] => (hexToBytes h).map .delete
  | ["kb", v] => (u8? v).map (fun b => .sink (.byte b))
  | ["kw", v] => (u16? v).map (fun b => .sink (.word b))
  | ["kd", v] => (u32? v).map (fun b => .sink (.dword b))
  | ["kq", v] => (u64? v).map (fun b => .sink (.qword b))
  | ["kv", h] => (hexToBytes h).map (fun b => .sink (.vec b))
  | _ => none

/-- wide-integer reference for the oracle: (Σ added − Σ removed) mod 256 over `Int` -/
def refDelta : Cks.Op → Int
  | .add b => b.toNat | .sub b => - (b.toNat : Int)
  | .append bs => (bs.foldl (fun a b => a + b.toNat) 0 : Nat)
  | .delete bs => - ((bs.foldl (fun a b => a + b.toNat) 0 : Nat) : Int)
  | .sink k => (k.bytes.foldl (fun a b => a + b.toNat) 0 : Nat)

/-- case: `cks op op …`  impl: `raw,value raw,value …` (one pair per op, plus the initial pair first) -/
def checkCks (case impl : List String) : List Fail := Id.run do
  let ops := case.filterMap parseCksOp
  if ops.length ≠ case.length then return [⟨"corr", "C17", "parse", "bad-op"⟩]
  let pairs := impl.filterMap (fun t => match t.splitOn "," with
    | [r, v] => do let r ← u8? r; let v ← u8? v; some (r, v)
    | _ => none)
  if pairs.length ≠ ops.length + 1 then return [⟨"corr", "C17", "shape", s!"expected {ops.length + 1} observations got {pairs.length}"⟩]
  let mut c : Cks := {}
  let mut ref : Int := 0
  let mut fails : List Fail := []
  let mut i := 0
  for (r, v) in pairs do
    if i > 0 then
      let op := ops[i - 1]!
      c := Cks.step c op
      ref := ref + refDelta op
    -- oracle on the implementation
    if (r.toNat : Int) ≠ ref % 256 then
      fails := ⟨"prop", "C17", "raw-is-sum", s!"op#{i} impl raw {r} reference {ref % 256}"⟩ :: fails
    if (r.toNat + v.toNat) % 256 ≠ 0 then
      fails := ⟨"prop", "C17", "raw+value", s!"op#{i} raw {r} value {v}"⟩ :: fails
    -- correspondence with the model
    if c.raw ≠ r ∨ c.cksum ≠ v then
      fails := ⟨"corr", "C17", "model", s!"op#{i} model {c.raw},{c.cksum} impl {r},{v}"⟩ :: fails
    i := i + 1
  return fails.reverse

end Drv
