import Drv.Util
import Acpi.Aml.PkgLen
import Acpi.Spec.PkgLength
namespace Drv
open Acpi

/-- oracle: spec decoder on the implementation's bytes -/
def pkgOracle (n : Nat) (incl : Bool) (impl : Bytes) : Option String :=
  match Spec.PkgLength.decode impl with
  | none => some "spec decoder rejects"
  | some (v, w) =>
    if w ≠ impl.length then some s!"decoder consumed {w} of {impl.length}"
    else if incl then
      if v ≠ n + impl.length then some s!"decodes to {v}, object spans {n + impl.length}"
      else if (List.range (w - 1)).any (fun w' => n + (w' + 1) ≤ Spec.PkgLength.maxOf (w' + 1)) then
        some s!"not minimal: width {w}"
      else none
    else if v ≠ n then some s!"decodes to {v}, width given {n}" else none

/-- case `pkglen n incl` impl `hex|panic` -/
def checkPkgLen (case impl : List String) : List Fail :=
  match case, impl with
  | [n, incl], [out] =>
    match nat? n, nat? incl with
    | some n, some i =>
      let incl := i ≠ 0
      let mPanics := pkgLenPanics n incl
      if out = "panic" then
        (if mPanics then [] else [⟨"corr", "C07,C18", "model", "impl panics, model does not"⟩]) ++
        (if pkgLenTotal n incl < 2 ^ 28 then [⟨"prop", "C07", "refused-representable", s!"n={n}"⟩] else [])
      else match hexToBytes out with
        | none => [⟨"corr", "C07", "parse", "bad hex"⟩]
        | some bs =>
          (if mPanics then [⟨"prop", "C18", "pkglen-not-refused", s!"n={n} emitted {out}"⟩] else
            (match pkgOracle n incl bs with
             | some e => [⟨"prop", "C07", "spec-decode", e⟩]
             | none => []) ++
            (if pkgLen n incl ≠ bs then [⟨"corr", "C07", "model", s!"model {bytesToHex (pkgLen n incl)} impl {out}"⟩] else []))
    | _, _ => [⟨"corr", "C07", "parse", "bad case"⟩]
  | _, _ => [⟨"corr", "C07", "parse", "bad case"⟩]

/-- FNV digest of the encodings of `start .. start+count-1` (each followed by 0xFF),
    `panic` contributing the two bytes 0xFE 0xFE. -/
def pkgBlockDigest (start count : Nat) (incl : Bool) : UInt64 := Id.run do
  let mut h := fnvInit
  for i in [start : start + count] do
    if pkgLenPanics i incl then
      h := fnvByte (fnvByte h 0xFE) 0xFE
    else
      h := fnvByte (fnvBytes h (pkgLen i incl)) 0xFF
  return h

/-- case `pkgblk start count incl` impl `digest` -/
def checkPkgBlk (case impl : List String) : List Fail :=
  match case, impl with
  | [s, c, i], [d] =>
    match nat? s, nat? c, nat? i, nat? d with
    | some s, some c, some i, some d =>
      let m := pkgBlockDigest s c (i ≠ 0)
      if m.toNat = d then [] else [⟨"corr", "C07", "block-digest", s!"model {m.toNat} impl {d}"⟩]
    | _, _, _, _ => [⟨"corr", "C07", "parse", "bad case"⟩]
  | _, _ => [⟨"corr", "C07", "parse", "bad case"⟩]

end Drv
