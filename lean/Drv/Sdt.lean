/-
  Driver for the `sdt` stream: the user-defined generic table `sdt::Sdt` (C13; C01, C02, C14).
    case: sighex len rev oemid oemtable oemrev ; op ; op …
    ops : a8=v a16=v a32=v a64=v as=hex   w8=off.v w16=off.v w32=off.v w64=off.v ws=off.hex
          kb=v kw=v kd=v kq=v kv=hex   ck
    impl: one token after `new` and one per op: `<hex>` | `panic:<hex after the refused op>`,
          or the single token `panic` when `new` panicked.
  The model (Acpi.Sdt) and the reference machine (Acpi.Spec.Sdt) are run separately, each on
  its own state, from separately parsed operations.
-/
import Drv.Util
import Acpi.Sdt
import Acpi.Spec.Sdt
namespace Drv
open Acpi

/-- `name=arg` → (name, arg); `ck` → ("ck", "") -/
def sdtSplitOp (t : String) : String × String :=
  match t.splitOn "=" with
  | [n, v] => (n, v)
  | _ => (t, "")

/-- `off.x` → (off, x) -/
def sdtOffArg (v : String) : Option (Nat × String) :=
  match v.splitOn "." with
  | [o, x] => (nat? o).map fun o => (o, x)
  | _ => none

/-- token → operation of the model -/
def sdtParseOp (t : String) : Option Sdt.Op :=
  let (n, v) := sdtSplitOp t
  match n with
  | "a8" => (u8? v).map .append8
  | "a16" => (u16? v).map .append16
  | "a32" => (u32? v).map .append32
  | "a64" => (u64? v).map .append64
  | "as" => (hexToBytes v).map .appendSlice
  -- the generic `append<T>` / `write<T>` at other widths (arrays, u128, GenericAddress) act on the raw
  -- bytes of the value: for the table they are the slice operations (C13.appendT_eq_appendSlice)
  | "at" => (hexToBytes v).map .appendSlice
  | "wt" => do let (o, x) ← sdtOffArg v; let x ← hexToBytes x; pure (.writeSlice o x)
  | "w8" => do let (o, x) ← sdtOffArg v; let x ← u8? x; pure (.write8 o x)
  | "w16" => do let (o, x) ← sdtOffArg v; let x ← u16? x; pure (.write16 o x)
  | "w32" => do let (o, x) ← sdtOffArg v; let x ← u32? x; pure (.write32 o x)
  | "w64" => do let (o, x) ← sdtOffArg v; let x ← u64? x; pure (.write64 o x)
  | "ws" => do let (o, x) ← sdtOffArg v; let x ← hexToBytes x; pure (.writeSlice o x)
  | "kb" => (u8? v).map fun x => .sink (.byte x)
  | "kw" => (u16? v).map fun x => .sink (.word x)
  | "kd" => (u32? v).map fun x => .sink (.dword x)
  | "kq" => (u64? v).map fun x => .sink (.qword x)
  | "kv" => (hexToBytes v).map fun x => .sink (.vec x)
  | "ck" => if v = "" then some .updateChecksum else none
  | _ => none

/-- token → action of the reference machine (numbers go through `leN` directly) -/
def sdtParseAct (t : String) : Option Spec.Sdt.Act :=
  let (n, v) := sdtSplitOp t
  let num (w : Nat) (s : String) : Option Bytes :=
    (nat? s).bind fun x => if x < 256 ^ w then some (leN w x) else none
  match n with
  | "a8" => (num 1 v).map .append
  | "a16" => (num 2 v).map .append
  | "a32" => (num 4 v).map .append
  | "a64" => (num 8 v).map .append
  | "as" => (hexToBytes v).map .append
  | "at" => (hexToBytes v).map .append
  | "wt" => do let (o, x) ← sdtOffArg v; let x ← hexToBytes x; pure (.write o x)
  | "w8" => do let (o, x) ← sdtOffArg v; let x ← num 1 x; pure (.write o x)
  | "w16" => do let (o, x) ← sdtOffArg v; let x ← num 2 x; pure (.write o x)
  | "w32" => do let (o, x) ← sdtOffArg v; let x ← num 4 x; pure (.write o x)
  | "w64" => do let (o, x) ← sdtOffArg v; let x ← num 8 x; pure (.write o x)
  | "ws" => do let (o, x) ← sdtOffArg v; let x ← hexToBytes x; pure (.write o x)
  | "kb" => (num 1 v).map .push
  | "kw" => (num 2 v).map .push
  | "kd" => (num 4 v).map .push
  | "kq" => (num 8 v).map .push
  | "kv" => (hexToBytes v).map .push
  | "ck" => if v = "" then some .touch else none
  | _ => none

/-- positions at which two equally long byte strings differ -/
def sdtDiffs (a b : Bytes) : List Nat :=
  let rec go : Bytes → Bytes → Nat → List Nat → List Nat
    | x :: xs, y :: ys, i, acc => go xs ys (i + 1) (if x = y then acc else i :: acc)
    | _, _, _, acc => acc.reverse
  go a b 0 []

/-- property tags of a contents mismatch -/
def sdtDiffTag (m img : Bytes) : String × String :=
  if m.length ≠ img.length then ("C13,C02", s!"lengths differ: {m.length} vs impl {img.length}") else
  let d := sdtDiffs m img
  let detail := s!"differ at bytes {d.take 8}"
  if d = [9] then ("C13,C01", detail)
  else if d.all (fun i => 4 ≤ i ∧ i < 8) then ("C13,C02", detail)
  else ("C13", detail)

/-- an observation: (refused?, contents) -/
def sdtParseObs (ob : String) : Option (Bool × Bytes) :=
  if ob.startsWith "panic:" then (hexToBytes (ob.drop 6).toString).map fun b => (true, b)
  else (hexToBytes ob).map fun b => (false, b)

structure SdtSt where
  model : Option Sdt            -- `none` once the model has diverged (reported once)
  spec : Option Bytes           -- likewise for the reference machine
  prev : Bytes                  -- the implementation's previous contents
  idx : Nat
  fails : List Fail             -- reversed

def sdtOne (st : SdtSt) (tok ob : String) : SdtSt := Id.run do
  let i := st.idx + 1
  let bad (m : String) : SdtSt :=
    { st with idx := i, model := none, spec := none,
              fails := ⟨"corr", "C13", "parse", s!"op#{i} {tok}: {m}"⟩ :: st.fails }
  let some op := sdtParseOp tok | return bad "operation (model)"
  let some act := sdtParseAct tok | return bad "operation (reference machine)"
  let some (refused, img) := sdtParseObs ob | return bad "observation"
  let mut fails := st.fails
  -- (1) model vs implementation
  let mut model := st.model
  match st.model with
  | none => pure ()
  | some s =>
    match s.step op, refused with
    | some s', false =>
      model := some s'
      if s'.data ≠ img then
        let (tag, d) := sdtDiffTag s'.data img
        fails := ⟨"corr", tag, "model", s!"op#{i} {tok}: {d}"⟩ :: fails
        model := none
    | none, true =>
      if s.data ≠ img then
        let (tag, d) := sdtDiffTag s.data img
        fails := ⟨"corr", tag, "model", s!"op#{i} {tok} (refused): {d}"⟩ :: fails
        model := none
    | some _, true =>
      fails := ⟨"corr", "C13", "model", s!"op#{i} {tok}: impl panics, model does not"⟩ :: fails
      model := none
    | none, false =>
      fails := ⟨"corr", "C13", "model", s!"op#{i} {tok}: model panics, impl does not"⟩ :: fails
      model := none
  -- (2) reference machine vs implementation
  let mut spec := st.spec
  match st.spec with
  | none => pure ()
  | some v =>
    match Spec.Sdt.step v act, refused with
    | some v', false =>
      spec := some v'
      if v' ≠ img then
        fails := ⟨"prop", "C13", "reference-machine", s!"op#{i} {tok}: {(sdtDiffTag v' img).2}"⟩ :: fails
        spec := none
    | none, true =>
      if v ≠ img then
        fails := ⟨"prop", "C13", "reference-machine", s!"op#{i} {tok} (refused): {(sdtDiffTag v img).2}"⟩ :: fails
        spec := none
    | some _, true =>
      fails := ⟨"prop", "C13", "reference-machine", s!"op#{i} {tok}: impl refuses, the reference machine accepts"⟩ :: fails
      spec := none
    | none, false =>
      fails := ⟨"prop", "C13", "reference-machine", s!"op#{i} {tok}: impl accepts, the reference machine refuses"⟩ :: fails
      spec := none
  -- (3) oracles on the implementation's bytes alone
  if sum8 img ≠ 0 then
    fails := ⟨"prop", "C13,C01", "sum-nonzero", s!"op#{i} {tok}: slice sums to {(sum8 img).toNat}"⟩ :: fails
  let appendLike : Bool := match act with
    | .append _ => true
    | .push bs => !bs.isEmpty      -- a sink call carrying no byte is not an operation
    | _ => false
  if appendLike ∧ ¬ refused ∧ readAt img 4 4 ≠ some img.length then
    fails := ⟨"prop", "C13,C02", "length-after-append",
      s!"op#{i} {tok}: Length {(readAt img 4 4).getD 0}, slice {img.length} bytes"⟩ :: fails
  if refused ∧ img ≠ st.prev then
    fails := ⟨"prop", "C13", "refused-write-changed-table", s!"op#{i} {tok}: {(sdtDiffTag st.prev img).2}"⟩ :: fails
  match act with
  | .write off bs =>
    if refused ∧ off + bs.length ≤ st.prev.length then
      fails := ⟨"prop", "C13", "in-range-write-refused", s!"op#{i} {tok}: table has {st.prev.length} bytes"⟩ :: fails
    if ¬ refused ∧ st.prev.length < off + bs.length then
      fails := ⟨"prop", "C13", "out-of-range-write-accepted", s!"op#{i} {tok}: table has {st.prev.length} bytes"⟩ :: fails
  | _ =>
    if refused then
      fails := ⟨"prop", "C13", "non-write-refused", s!"op#{i} {tok}"⟩ :: fails
  return { model, spec, prev := img, idx := i, fails }

def sdtLoop : SdtSt → List String → List String → SdtSt
  | st, tok :: toks, ob :: obs => sdtLoop (sdtOne st tok ob) toks obs
  | st, _, _ => st

def checkSdt (case impl : List String) : List Fail :=
  let bad (m : String) : List Fail := [⟨"corr", "C13", "parse", m⟩]
  match case with
  | sigS :: lenS :: revS :: oidS :: otabS :: orevS :: rest =>
    let opToks := rest.filter (· ≠ ";")
    match hexToBytes sigS, u32? lenS, u8? revS, hexToBytes oidS, hexToBytes otabS, u32? orevS with
    | some sig, some len, some rev, some oid, some otab, some orev =>
      let model := Sdt.new sig len rev oid otab orev
      let spec := Spec.Sdt.create sig len.toNat rev oid otab orev.toNat
      match impl with
      | [] => bad "no observation"
      | ["panic"] =>
        (if model.isSome then [⟨"corr", "C13", "model", "new: impl panics, model does not"⟩] else [])
        ++ (if spec.isSome then [⟨"prop", "C13", "reference-machine", "new: impl refuses, the reference machine accepts"⟩] else [])
        ++ (if 36 ≤ len.toNat then [⟨"prop", "C13", "new-refused", s!"declared length {len.toNat}"⟩] else [])
      | ob0 :: obs0 =>
        -- the final `ser=<hex>,<len>` observation: `to_aml_bytes` and `len()` agree with the slice
        let (obs, serFails) : List String × List Fail :=
          match obs0.getLast? with
          | some l =>
            if l.startsWith "ser=" then
              let body := (l.drop 4).toString
              let lastHex : String := match (obs0.dropLast).getLast? with
                | some o => if o.startsWith "panic:" then (o.drop 6).toString else o
                | none => ob0
              match body.splitOn "," with
              | [h, n] =>
                (obs0.dropLast,
                 (if h ≠ lastHex then [⟨"prop", "C13,C14", "serialisation-differs-from-slice", s!"to_aml_bytes gives {h.length / 2} bytes, as_slice {lastHex.length / 2}"⟩] else [])
                 ++ (if nat? n ≠ some (lastHex.length / 2) then [⟨"prop", "C13", "len-differs-from-slice", s!"len() = {n}, as_slice has {lastHex.length / 2} bytes"⟩] else []))
              | _ => (obs0.dropLast, [⟨"corr", "C13", "parse", "ser observation"⟩])
            else (obs0, [⟨"corr", "C13", "parse", "missing final ser= observation"⟩])
          | none => (obs0, [⟨"corr", "C13", "parse", "missing final ser= observation"⟩])
        serFails ++
        if obs.length ≠ opToks.length then bad s!"{opToks.length} ops but {obs.length} observations after new" else
        match sdtParseObs ob0 with
        | some (false, img) =>
          let f1 : List Fail := match model with
            | some s => if s.data ≠ img then
                let (tag, d) := sdtDiffTag s.data img
                [⟨"corr", tag, "model", s!"new: {d}"⟩] else []
            | none => [⟨"corr", "C13", "model", "new: model panics, impl does not"⟩]
          let f2 : List Fail := match spec with
            | some v => if v ≠ img then [⟨"prop", "C13", "reference-machine", s!"new: {(sdtDiffTag v img).2}"⟩] else []
            | none => [⟨"prop", "C13", "reference-machine", "new: impl accepts, the reference machine refuses"⟩]
          let f3 : List Fail :=
            (if sum8 img ≠ 0 then [⟨"prop", "C13,C01", "sum-nonzero", s!"new: slice sums to {(sum8 img).toNat}"⟩] else [])
            ++ (if img.length ≠ len.toNat ∨ readAt img 4 4 ≠ some len.toNat then
                  [⟨"prop", "C13,C02", "length-after-new", s!"declared {len.toNat}, slice {img.length} bytes, Length {(readAt img 4 4).getD 0}"⟩] else [])
            ++ (if len.toNat < 36 then [⟨"prop", "C13", "short-new-accepted", s!"declared length {len.toNat}"⟩] else [])
          let st0 : SdtSt :=
            { model := if f1.isEmpty then model else none
              spec := if f2.isEmpty then spec else none
              prev := img, idx := 0, fails := (f1 ++ f2 ++ f3).reverse }
          (sdtLoop st0 opToks obs).fails.reverse
        | _ => bad "first observation"
    | _, _, _, _, _, _ => bad "header"
  | _ => bad "header (6 tokens expected)"

end Drv
