import Drv.Util
import Acpi.Aml.Int
import Acpi.Aml.Path
import Acpi.Aml.Eisa
import Acpi.Aml.PkgLen
import Acpi.Spec.Int
import Acpi.Spec.NameString
import Acpi.Spec.Eisa
import Acpi.Spec.PkgLength
namespace Drv
open Acpi

def encByType (ty : String) (v : Nat) : Option Bytes :=
  match ty with
  | "u8" => if v < 2 ^ 8 then some (encU8 (UInt8.ofNat v)) else none
  | "u16" => if v < 2 ^ 16 then some (encU16 (UInt16.ofNat v)) else none
  | "u32" => if v < 2 ^ 32 then some (encU32 (UInt32.ofNat v)) else none
  | "u64" => if v < 2 ^ 64 then some (encU64 (UInt64.ofNat v)) else none
  | "usize" => if v < 2 ^ 64 then some (encUsize (UInt64.ofNat v)) else none
  | _ => none

def narrowLen (n : Nat) : Nat :=
  if n ≤ 1 then 1 else if n < 2 ^ 8 then 2 else if n < 2 ^ 16 then 3 else if n < 2 ^ 32 then 5 else 9

/-- oracle for an integer constant found in the implementation's bytes -/
def intOracle (v : Nat) (impl : Bytes) : Option String :=
  match Spec.Int.decode impl with
  | some (n, []) =>
    if n ≠ v then some s!"decodes to {n}"
    else if impl.length ≠ narrowLen v then some s!"not the narrowest form ({impl.length} bytes)"
    else if v = 0 ∧ impl ≠ [0] then some "zero is not ZeroOp"
    else if v = 1 ∧ impl ≠ [1] then some "one is not OneOp"
    else none
  | some (_, _) => some "trailing bytes after the integer"
  | none => some "spec decoder rejects"

/-- case `int ty v` impl `hex` -/
def checkInt (case impl : List String) : List Fail :=
  match case, impl with
  | [ty, v], [out] =>
    match nat? v, hexToBytes out with
    | some v, some bs =>
      (match intOracle v bs with
       | some e => [⟨"prop", "C08", "spec-decode", s!"{ty} {v}: {e}"⟩]
       | none => []) ++
      (match encByType ty v with
       | some m => if m = bs then [] else [⟨"corr", "C08", "model", s!"model {bytesToHex m} impl {out}"⟩]
       | none => [⟨"corr", "C08", "parse", "bad type/value"⟩])
    | _, _ => [⟨"corr", "C08", "parse", "bad case"⟩]
  | _, _ => [⟨"corr", "C08", "parse", "bad case"⟩]

def intBlockDigest (ty : String) (start count : Nat) : UInt64 := Id.run do
  let mut h := fnvInit
  for i in [start : start + count] do
    match encByType ty i with
    | some bs => h := fnvByte (fnvBytes h bs) 0xFF
    | none => h := fnvByte h 0xFE
  return h

/-- case `intblk ty start count` impl `digest` -/
def checkIntBlk (case impl : List String) : List Fail :=
  match case, impl with
  | [ty, s, c], [d] =>
    match nat? s, nat? c, nat? d with
    | some s, some c, some d =>
      let m := intBlockDigest ty s c
      if m.toNat = d then [] else [⟨"corr", "C08", "block-digest", s!"model {m.toNat} impl {d}"⟩]
    | _, _, _ => [⟨"corr", "C08", "parse", "bad case"⟩]
  | _, _ => [⟨"corr", "C08", "parse", "bad case"⟩]

/-- independent split on '.', for the oracle -/
def pieces (bs : Bytes) : List Bytes :=
  bs.foldr (fun b acc => if b = 0x2E then [] :: acc else
    match acc with
    | p :: ps => (b :: p) :: ps
    | [] => [[b]]) [[]]

/-- case `path hex(utf8)` impl `hex|panic` -/
def checkPath (case impl : List String) : List Fail :=
  -- (`<hex> f`: the same string through `Path::from`; one model for both ways to a Path)
  let case := match case with | [h, "f"] => [h] | c => c
  match case, impl with
  | [h], [out] =>
    match hexToBytes h with
    | none => [⟨"corr", "C09", "parse", "bad case"⟩]
    | some s =>
      let model : Option Bytes := (Path.new s).bind fun p => if p.encPanics then none else some p.enc
      let rooted := s.head? = some 0x5C
      let ps := pieces (if rooted then s.drop 1 else s)
      let wellFormed := ps.all (·.length = 4)
      if out = "panic" then
        (if model.isSome then [⟨"corr", "C09,C18", "model", "impl panics, model emits"⟩] else []) ++
        (if wellFormed ∧ ps.length ≤ 255 then [⟨"prop", "C09", "refused-wellformed", s!"{ps.length} segments"⟩] else [])
      else match hexToBytes out with
        | none => [⟨"corr", "C09", "parse", "bad hex"⟩]
        | some bs =>
          (if ¬ wellFormed then [⟨"prop", "C09", "malformed-accepted", s!"emitted {out}"⟩]
           else if 255 < ps.length then [⟨"prop", "C18", "segcount-not-refused", s!"{ps.length} segments"⟩]
           else if ps.all Spec.NameString.isSeg then
             (match Spec.NameString.decode bs with
              | some (r, ss, []) => if r = rooted ∧ ss = ps then [] else
                  [⟨"prop", "C09", "spec-decode", "decodes to a different path"⟩]
              | _ => [⟨"prop", "C09", "spec-decode", "spec decoder rejects or leaves bytes"⟩])
           else []) ++
          (if model = some bs then [] else
            [⟨"corr", "C09", "model", s!"model {(model.map bytesToHex).getD "panic"} impl {out}"⟩])
  | _, _ => [⟨"corr", "C09", "parse", "bad case"⟩]

def utf8Chars (bs : Bytes) : Option (List Char) :=
  (String.fromUTF8? (ByteArray.mk bs.toArray)).map String.toList

def isUpperLetter (c : Char) : Bool := 'A' ≤ c && c ≤ 'Z'
def isHex (c : Char) : Bool := ('0' ≤ c && c ≤ '9') || ('a' ≤ c && c ≤ 'f') || ('A' ≤ c && c ≤ 'F')

/-- case `eisa hex(utf8)` impl `hex|panic` -/
def checkEisa (case impl : List String) : List Fail :=
  match case, impl with
  | [h], [out] =>
    match (hexToBytes h).bind (fun b => (utf8Chars b).map (fun c => (b, c))) with
    | none => [⟨"corr", "C16", "parse", "bad case"⟩]
    | some (bytes, chars) =>
      let model := eisaEnc bytes chars
      let canonical := chars.length = 7 ∧ (chars.take 3).all isUpperLetter ∧ (chars.drop 3).all isHex
      let mustRefuse := bytes.length ≠ 7 ∨ (bytes.length = 7 ∧ chars.length = 7 ∧ ¬ (chars.drop 3).all isHex)
      if out = "panic" then
        (if model.isSome then [⟨"corr", "C16", "model", "impl panics, model emits"⟩] else []) ++
        (if canonical then [⟨"prop", "C16", "eisa-refused-valid", String.ofList chars⟩] else [])
      else match hexToBytes out with
        | none => [⟨"corr", "C16", "parse", "bad hex"⟩]
        | some bs =>
          (if mustRefuse then [⟨"prop", "C16", "eisa-malformed-accepted", s!"emitted {out}"⟩]
           else if canonical then
             (match Spec.Int.decode bs with
              | some (v, []) =>
                if Spec.Eisa.decompress v = chars.map Char.toUpper ∧ v < 2 ^ 32 then []
                else [⟨"prop", "C16", "eisa-decompress", s!"value {v} decompresses to {String.ofList (Spec.Eisa.decompress v)}"⟩]
              | _ => [⟨"prop", "C16", "eisa-not-integer", out⟩])
           else []) ++
          (if model = some bs then [] else
            [⟨"corr", "C16", "model", s!"model {(model.map bytesToHex).getD "panic"} impl {out}"⟩])
  | _, _ => [⟨"corr", "C16", "parse", "bad case"⟩]

/-- digest of all 65536 ids with the letter triple number `i` (upper-case digits) -/
def eisaBlockDigest (i : Nat) : UInt64 := Id.run do
  let l : List Char := [Char.ofNat (65 + i / 676), Char.ofNat (65 + i / 26 % 26), Char.ofNat (65 + i % 26)]
  let up := "0123456789ABCDEF".toList.toArray
  let mut h := fnvInit
  for d in [0:65536] do
    let cs := l ++ [up[d / 4096 % 16]!, up[d / 256 % 16]!, up[d / 16 % 16]!, up[d % 16]!]
    match eisaEnc (cs.map fun c => UInt8.ofNat c.toNat) cs with
    | some bs => h := fnvByte (fnvBytes h bs) 0xFF
    | none => h := fnvByte h 0xFE
  return h

/-- case `eisablk i` impl `digest` -/
def checkEisaBlk (case impl : List String) : List Fail :=
  match case, impl with
  | [i], [d] =>
    match nat? i, nat? d with
    | some i, some d =>
      let m := eisaBlockDigest i
      if m.toNat = d then [] else [⟨"corr", "C16", "block-digest", s!"model {m.toNat} impl {d}"⟩]
    | _, _ => [⟨"corr", "C16", "parse", "bad case"⟩]
  | _, _ => [⟨"corr", "C16", "parse", "bad case"⟩]

/-- model of `impl Aml for Uuid`: BufferData of the 16 bytes -/
def uuidEnc (cs : List Char) : Option Bytes :=
  (uuidBytes cs).map fun b =>
    let inner := encUsize (UInt64.ofNat b.length) ++ b
    [0x11] ++ pkgLen inner.length true ++ inner

def validUuid (cs : List Char) : Bool :=
  cs.length = 36 && (List.range 36).all fun i =>
    if i = 8 ∨ i = 13 ∨ i = 18 ∨ i = 23 then cs[i]! = '-' else isHex cs[i]!

/-- spec-side framing of a 16-byte DefBuffer -/
def bufferPayload (bs : Bytes) : Option Bytes :=
  match bs with
  | 0x11 :: rest =>
    match Spec.PkgLength.decode rest with
    | some (total, w) =>
      if total ≠ rest.length then none else
      match Spec.Int.decode (rest.drop w) with
      | some (n, payload) => if n = payload.length then some payload else none
      | none => none
    | none => none
  | _ => none

/-- case `uuid hex(utf8)` impl `hex|panic` -/
def checkUuid (case impl : List String) : List Fail :=
  match case, impl with
  | [h], [out] =>
    match (hexToBytes h).bind utf8Chars with
    | none => [⟨"corr", "C16", "parse", "bad case"⟩]
    | some chars =>
      let model := uuidEnc chars
      let valid := validUuid chars
      if out = "panic" then
        (if model.isSome then [⟨"corr", "C16", "model", "impl panics, model emits"⟩] else []) ++
        (if valid then [⟨"prop", "C16", "uuid-refused-valid", String.ofList chars⟩] else [])
      else match hexToBytes out with
        | none => [⟨"corr", "C16", "parse", "bad hex"⟩]
        | some bs =>
          (if ¬ valid then [⟨"prop", "C16", "uuid-malformed-accepted", s!"emitted {out}"⟩]
           else match (bufferPayload bs).bind Spec.Eisa.uuidOfBuffer with
             | some s => if s = chars.map Char.toLower then [] else
                 [⟨"prop", "C16", "uuid-roundtrip", s!"buffer reads back as {String.ofList s}"⟩]
             | none => [⟨"prop", "C16", "uuid-not-16-byte-buffer", out⟩]) ++
          (if model = some bs then [] else
            [⟨"corr", "C16", "model", s!"model {(model.map bytesToHex).getD "panic"} impl {out}"⟩])
  | _, _ => [⟨"corr", "C16", "parse", "bad case"⟩]

end Drv
