#!/usr/bin/env python3
"""seedall.py [seeded|harmless] — development tool: run seedtest.py over every kept seeded change
(or harmless rewrite) and write seeded/RESULTS.json (harmless/RESULTS.json)."""
import json, os, subprocess, sys, glob
ROOT = os.path.dirname(os.path.abspath(__file__))
which = sys.argv[1] if len(sys.argv) > 1 else "seeded"
res = {}
if which == "seeded":
    items = sorted((os.path.basename(d), os.path.join(d, "patch.diff")) for d in glob.glob(os.path.join(ROOT, "seeded", "C*")))
else:
    items = sorted((os.path.basename(f)[:-5], f) for f in glob.glob(os.path.join(ROOT, "harmless", "h*.diff")))
only = sys.argv[2].split(",") if len(sys.argv) > 2 else None
for name, patch in items:
    if only and name not in only:
        continue
    p = subprocess.run([sys.executable, os.path.join(ROOT, "seedtest.py"), patch], capture_output=True, text=True)
    last = [l for l in p.stdout.splitlines() if l.startswith("{")]
    if not last:
        res[name] = {"error": (p.stdout + p.stderr)[-500:]}
    else:
        r = json.loads(last[-1])
        res[name] = {k: ("found-input" if v["with_input"] else "no-failing-input-found") for k, v in r.items() if v["rc"] != 0}
    print(name, res[name], flush=True)
out = os.path.join(ROOT, which, "RESULTS.json")
old = json.load(open(out)) if os.path.exists(out) and only else {}
old.update(res)
json.dump(old, open(out, "w"), indent=1, sort_keys=True)
