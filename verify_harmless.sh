#!/bin/sh
# verify_harmless.sh <Hnn> <hNN> : confirm a behaviour-preserving rewrite produced in /tmp/wt4_<Hnn>/seeded_out
# (88 baseline tests pass with it; its demo passes with and without it), keep it as harmless/<hNN>.diff
# (+ <hNN>.demo.rs, <hNN>.meta.json).  Development tool.
set -u
ID=$1; OUT=$2
SRC=/tmp/wt4_$ID/seeded_out
VS=/tmp/vh_$ID
git -C /repo worktree remove --force $VS >/dev/null 2>&1
git -C /repo worktree add --detach $VS HEAD >/dev/null 2>&1 || exit 2
mkdir -p $VS/tests
cp $SRC/demo.rs $VS/tests/seeded_demo.rs
cd $VS
export CARGO_NET_OFFLINE=true
A=$(timeout 900 cargo test --offline --test seeded_demo 2>&1 | grep "test result" | head -1)
echo "unchanged, demo: $A"
git apply $SRC/patch.diff || { echo "patch does not apply"; exit 3; }
B=$(timeout 900 cargo test --offline --lib 2>&1 | grep "test result" | head -1)
echo "with rewrite, baseline: $B"
C=$(timeout 900 cargo test --offline --test seeded_demo 2>&1 | grep "test result" | head -1)
echo "with rewrite, demo: $C"
ok=1
echo "$A" | grep -q "ok\." || ok=0
echo "$B" | grep -q "88 passed; 0 failed" || ok=0
echo "$C" | grep -q "ok\." || ok=0
if [ $ok = 1 ]; then
  cp $SRC/patch.diff /verif/harmless/$OUT.diff
  cp $SRC/demo.rs /verif/harmless/$OUT.demo.rs
  cp $SRC/meta.json /verif/harmless/$OUT.meta.json
  echo "CONFIRMED $ID -> $OUT"
else
  echo "NOT-CONFIRMED $ID"
fi
cd /
git -C /repo worktree remove --force $VS >/dev/null 2>&1
rm -rf $VS
