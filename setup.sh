#!/bin/sh
# Build the framework from files on disk only (offline): Lean library + driver, harness (release + dev).
set -e
cd "$(dirname "$0")"
export CARGO_NET_OFFLINE=true
mkdir -p .cache evidence
# library, driver and every property-theorem module (so the first check after a restore is warm)
(cd lean && lake build Acpi driver $(find Acpi/Props -name '*.lean' | sed 's/\.lean$//; s#/#.#g' | sort))
[ -f harness/Cargo.lock ] || cp /repo/Cargo.lock harness/Cargo.lock
export CARGO_TARGET_DIR="$PWD/.cache/target"
export RUSTFLAGS="--cfg rust_vmm_acpi_tables_verif --check-cfg cfg(rust_vmm_acpi_tables_verif) -Awarnings"
(cd harness && cargo build --offline --release && cargo build --offline)
echo setup-ok
