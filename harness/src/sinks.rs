//! C14: the same object into six sinks; only the concatenation may matter.
use acpi_tables::aml::PackageBuilder;
use acpi_tables::sdt::Sdt;
use acpi_tables::{Aml, AmlSink, Checksum};

/// implements only the mandatory single-byte method
pub struct ByteOnly(pub Vec<u8>);
impl AmlSink for ByteOnly {
    fn byte(&mut self, b: u8) {
        self.0.push(b);
    }
}

/// overrides every method and records how the bytes were chunked
#[derive(Default)]
pub struct Recorder {
    pub bytes: Vec<u8>,
    pub calls: Vec<(char, usize)>,
}
impl AmlSink for Recorder {
    fn byte(&mut self, b: u8) {
        self.calls.push(('b', 1));
        self.bytes.push(b);
    }
    fn word(&mut self, w: u16) {
        self.calls.push(('w', 2));
        self.bytes.extend_from_slice(&w.to_le_bytes());
    }
    fn dword(&mut self, d: u32) {
        self.calls.push(('d', 4));
        self.bytes.extend_from_slice(&d.to_le_bytes());
    }
    fn qword(&mut self, q: u64) {
        self.calls.push(('q', 8));
        self.bytes.extend_from_slice(&q.to_le_bytes());
    }
    fn vec(&mut self, v: &[u8]) {
        self.calls.push(('v', v.len()));
        self.bytes.extend_from_slice(v);
    }
}

/// sinks that override only some of the entry points (the rest fall back to the trait's defaults)
pub struct ByteVec(pub Vec<u8>);
impl AmlSink for ByteVec {
    fn byte(&mut self, b: u8) { self.0.push(b); }
    fn vec(&mut self, v: &[u8]) { self.0.extend_from_slice(v); }
}
pub struct ByteWordDword(pub Vec<u8>);
impl AmlSink for ByteWordDword {
    fn byte(&mut self, b: u8) { self.0.push(b); }
    fn word(&mut self, w: u16) { self.0.extend_from_slice(&w.to_le_bytes()); }
    fn dword(&mut self, d: u32) { self.0.extend_from_slice(&d.to_le_bytes()); }
}
pub struct ByteQword(pub Vec<u8>);
impl AmlSink for ByteQword {
    fn byte(&mut self, b: u8) { self.0.push(b); }
    fn qword(&mut self, q: u64) { self.0.extend_from_slice(&q.to_le_bytes()); }
}

/// "ok" or the first sink that saw something else than the `Vec<u8>` sink
pub fn all_sinks(a: &dyn Aml) -> String {
    let mut v: Vec<u8> = Vec::new();
    a.to_aml_bytes(&mut v);
    let mut v2: Vec<u8> = Vec::new();
    a.to_aml_bytes(&mut v2);
    if v != v2 {
        return "DIFF:twice".into();
    }
    let mut b = ByteOnly(Vec::new());
    a.to_aml_bytes(&mut b);
    if b.0 != v {
        return "DIFF:byte-only".into();
    }
    let mut p1 = ByteVec(Vec::new());
    a.to_aml_bytes(&mut p1);
    if p1.0 != v {
        return "DIFF:byte+vec".into();
    }
    let mut p2 = ByteWordDword(Vec::new());
    a.to_aml_bytes(&mut p2);
    if p2.0 != v {
        return "DIFF:byte+word+dword".into();
    }
    let mut p3 = ByteQword(Vec::new());
    a.to_aml_bytes(&mut p3);
    if p3.0 != v {
        return "DIFF:byte+qword".into();
    }
    // a sink that already holds bytes: only the appended part may depend on the object
    let mut pre: Vec<u8> = vec![0x5a, 0x00, 0xff, 0x79];
    a.to_aml_bytes(&mut pre);
    if pre[..4] != [0x5a, 0x00, 0xff, 0x79] || pre[4..] != v[..] {
        return "DIFF:non-empty-sink".into();
    }
    let mut r = Recorder::default();
    a.to_aml_bytes(&mut r);
    if r.bytes != v {
        return "DIFF:recorder".into();
    }
    let mut c = Checksum::default();
    a.to_aml_bytes(&mut c);
    let sum = v.iter().fold(0u8, |x, y| x.wrapping_add(*y));
    if c.raw_value() != sum {
        return "DIFF:checksum".into();
    }
    if acpi_tables::u8sum(a) != sum {
        return "DIFF:u8sum".into();
    }
    if v.len() <= 1 << 16 {
        let mut s = Sdt::new(*b"TEST", 36, 1, *b"ABCDEF", *b"ABCDEFGH", 1);
        a.to_aml_bytes(&mut s);
        let sl = s.as_slice();
        if sl[36..] != v[..] {
            return "DIFF:sdt".into();
        }
        if sl.iter().fold(0u8, |x, y| x.wrapping_add(*y)) != 0 {
            return "DIFF:sdt-sum".into();
        }
        if u32::from_le_bytes([sl[4], sl[5], sl[6], sl[7]]) as usize != sl.len() {
            return "DIFF:sdt-len".into();
        }
    }
    let mut p = PackageBuilder::new();
    a.to_aml_bytes(&mut p);
    let mut pv = Vec::new();
    p.to_aml_bytes(&mut pv);
    if pv.len() < v.len() || pv[pv.len() - v.len()..] != v[..] {
        return "DIFF:package-builder".into();
    }
    "ok".into()
}
