pub fn hex(bs: &[u8]) -> String {
    if bs.is_empty() {
        return "-".to_string();
    }
    let mut s = String::with_capacity(bs.len() * 2);
    for b in bs {
        s.push(char::from_digit((b >> 4) as u32, 16).unwrap());
        s.push(char::from_digit((b & 15) as u32, 16).unwrap());
    }
    s
}

pub fn unhex(s: &str) -> Vec<u8> {
    if s == "-" {
        return Vec::new();
    }
    let b = s.as_bytes();
    assert!(b.len() % 2 == 0);
    (0..b.len() / 2)
        .map(|i| {
            let h = (b[2 * i] as char).to_digit(16).unwrap() as u8;
            let l = (b[2 * i + 1] as char).to_digit(16).unwrap() as u8;
            (h << 4) | l
        })
        .collect()
}

pub const FNV_INIT: u64 = 0xcbf2_9ce4_8422_2325;
pub fn fnv_step(h: u64, b: u8) -> u64 {
    (h ^ b as u64).wrapping_mul(0x0000_0100_0000_01b3)
}
pub fn fnv_from(mut h: u64, bs: &[u8]) -> u64 {
    for b in bs {
        h = fnv_step(h, *b);
    }
    h
}
pub fn fnv(bs: &[u8]) -> u64 {
    fnv_from(FNV_INIT, bs)
}

pub fn n<T: std::str::FromStr>(s: &str) -> T
where
    T::Err: std::fmt::Debug,
{
    s.parse::<T>().expect("number")
}
