//! stream `cks`: operation sequences on the public `Checksum` accumulator (C17).
use crate::rng::Rng;
use crate::util::*;
use acpi_tables::{AmlSink, Checksum};

pub fn gen(r: &mut Rng, tier: &str, emit: &mut dyn FnMut(String)) {
    // corpus
    for c in [
        "a:1 a:1 a:255 a:1 A:ff A:8080 a:1",
        "A:- D:- kv:-",
        "a:255 a:255 s:255 s:255 s:1",
        "kw:65535 kd:4294967295 kq:18446744073709551615 kb:255",
        "A:ffffffffffffffffffffffffffffffffffff D:ffffffffffffffffffffffffffffffffffff",
    ] {
        emit(c.to_string());
    }
    // exhaustive single-step table: every state (reached by one `add`) × every byte, for add and sub
    for s in 0..256u32 {
        let mut line = String::new();
        for b in 0..256u32 {
            line.push_str(&format!("a:{} a:{} s:{} s:{} a:{} ", s, b, b, b, b));
            line.push_str(&format!("s:{} ", (s + b) % 256)); // back to 0 relative
        }
        emit(line.trim_end().to_string());
    }
    // long slices (word-at-a-time or lane-wise summation shows only past a few hundred bytes of
    // large values): every length class × fills, through append, delete and the sink's vec
    let mut lens: Vec<usize> = vec![63, 64, 65, 255, 256, 257, 511, 513, 1023, 1024, 1031, 1032, 1033, 1500, 2047, 2049, 4096, 8191, 16385, 65535, 65536, 65537];
    if tier == "thorough" { lens.extend([131071, 262145, 1 << 20, (1 << 20) + 3]); }
    for &l in &lens {
        for fill in 0..5u64 {
            let bs: Vec<u8> = match fill {
                0 => vec![0xff; l],
                1 => vec![0x80; l],
                2 => vec![0x01; l],
                3 => r.bytes(l),
                _ => r.bytes(l).into_iter().map(|b| b | 0x80).collect(),
            };
            let h = hex(&bs);
            let half = hex(&bs[..l / 2]);
            let rest = hex(&bs[l / 2..]);
            emit(format!("A:{} D:{} a:7 kv:{} D:{} D:{} A:{} kv:{}", h, h, h, half, rest, rest, half));
        }
    }
    let n = if tier == "thorough" { 40000 } else { 2000 };
    for _ in 0..n {
        let len = match r.below(10) {
            0 => 0,
            1..=6 => r.range(1, 12),
            _ => r.range(13, 120),
        };
        let mut ops = Vec::new();
        for _ in 0..len {
            let op = match r.below(9) {
                0 => format!("a:{}", r.scalar(8)),
                1 => format!("s:{}", r.scalar(8)),
                2 => { let k = r.below(40) as usize; format!("A:{}", hex(&r.bytes(k))) }
                3 => { let k = r.below(40) as usize; format!("D:{}", hex(&r.bytes(k))) }
                4 => format!("kb:{}", r.scalar(8)),
                5 => format!("kw:{}", r.scalar(16)),
                6 => format!("kd:{}", r.scalar(32)),
                7 => format!("kq:{}", r.scalar(64)),
                _ => { let k = r.below(300) as usize; format!("kv:{}", hex(&r.bytes(k))) }
            };
            ops.push(op);
        }
        emit(ops.join(" "));
    }
}

pub fn run(toks: &[&str]) -> String {
    let mut c = Checksum::default();
    let mut out = vec![format!("{},{}", c.raw_value(), c.value())];
    for t in toks {
        let (k, v) = t.split_once(':').expect("op");
        match k {
            "a" => c.add(n(v)),
            "s" => c.sub(n(v)),
            "A" => c.append(&unhex(v)),
            "D" => c.delete(&unhex(v)),
            "kb" => c.byte(n(v)),
            "kw" => c.word(n(v)),
            "kd" => c.dword(n(v)),
            "kq" => c.qword(n(v)),
            "kv" => c.vec(&unhex(v)),
            _ => panic!("bad op"),
        }
        out.push(format!("{},{}", c.raw_value(), c.value()));
    }
    out.join(" ")
}
