//! stream `tbl`: histories on the append-engine tables (C01–C05, C11, C12, C14, C18), and
//! stream `ent`: one entry/sub-structure alone (C04, C11, C14).
//!
//! op token  = [!]kind/nums/blobs/subs/opts       (see lean/Acpi/Tables/Entries.lean for the
//!             argument conventions of each kind; `#k` = the k-th handle of the needed type)
//! obs token = raw,h,H,L,S,B,refs | raw,h,refs | panic
use crate::util::*;
use acpi_tables::gas::{AccessSize, AddressSpace, GAS};
use acpi_tables::{cedt, hest, hmat, madt, mcfg, pptt, rhct, rimt, rqsc, srat, viot, xsdt};
use acpi_tables::{Aml, AmlSink};
use zerocopy::IntoBytes;

pub const REF: u64 = 1 << 63;

#[derive(Clone, Debug, Default)]
pub struct Op {
    pub observe: bool,
    pub kind: String,
    pub n: Vec<u64>,
    pub b: Vec<Vec<u8>>,
    pub s: Vec<Vec<u64>>,
    pub o: Vec<(String, Vec<u64>)>,
}

fn pnum(t: &str) -> u64 {
    if let Some(k) = t.strip_prefix('#') {
        REF | k.parse::<u64>().expect("ref")
    } else {
        t.parse::<u64>().expect("num")
    }
}

pub fn parse_op(t: &str) -> Op {
    let (observe, t) = match t.strip_prefix('!') {
        Some(r) => (false, r),
        None => (true, t),
    };
    let p: Vec<&str> = t.split('/').collect();
    assert!(p.len() == 5, "op token");
    let list = |s: &str, sep: char| -> Vec<u64> {
        if s == "-" || s == "_" { vec![] } else { s.split(sep).map(pnum).collect() }
    };
    Op {
        observe,
        kind: p[0].to_string(),
        n: list(p[1], ','),
        b: if p[2] == "-" { vec![] } else { p[2].split(',').map(|h| if h == "." { vec![] } else { unhex(h) }).collect() },
        s: if p[3] == "-" { vec![] } else { p[3].split(';').map(|x| list(x, '.')).collect() },
        o: if p[4] == "-" {
            vec![]
        } else {
            p[4].split(',')
                .map(|x| match x.split_once('=') {
                    Some((nm, vs)) => (nm.to_string(), list(vs, '.')),
                    None => (x.to_string(), vec![]),
                })
                .collect()
        },
    }
}

#[derive(Default)]
pub struct Handles {
    procs: Vec<(pptt::ProcessorHandle, u64)>,
    caches: Vec<(pptt::CacheHandle, u64)>,
    isas: Vec<(rhct::IsaStringHandle, u64)>,
    cmos: Vec<(rhct::CmoHandle, u64)>,
    iommus: Vec<(rimt::IommuOffset, u64)>,
    trans: Vec<(viot::TranslationHandle, u64)>,
    pub resolved: Vec<u64>,
}

fn dbg_num<T: core::fmt::Debug>(h: &T) -> u64 {
    let s = format!("{:?}", h);
    let a = s.find('(').unwrap();
    let b = s.find(')').unwrap();
    s[a + 1..b].parse().unwrap()
}

fn ser(a: &dyn Aml) -> Vec<u8> {
    let mut v = Vec::new();
    a.to_aml_bytes(&mut v);
    v
}

fn iommu_value(o: rimt::IommuOffset) -> u64 {
    let b = ser(&rimt::IdMapping::new(0, 0, 0, o, false, false, false));
    u32::from_le_bytes([b[12], b[13], b[14], b[15]]) as u64
}

fn trans_value(h: &viot::TranslationHandle) -> u64 {
    let b = ser(&viot::MmioEndpoint::new(0, 0, h));
    u16::from_le_bytes([b[16], b[17]]) as u64
}

impl Handles {
    fn idx(&mut self, v: u64, len: usize) -> usize {
        assert!(v & REF != 0, "expected a handle reference");
        let k = (v & !REF) as usize;
        assert!(k < len, "dangling handle reference");
        k
    }
    fn proc(&mut self, v: u64) -> pptt::ProcessorHandle {
        let k = self.idx(v, self.procs.len());
        self.resolved.push(self.procs[k].1);
        self.procs[k].0
    }
    fn cache(&mut self, v: u64) -> pptt::CacheHandle {
        let k = self.idx(v, self.caches.len());
        self.resolved.push(self.caches[k].1);
        self.caches[k].0
    }
    fn isa(&mut self, v: u64) -> usize {
        let k = self.idx(v, self.isas.len());
        self.resolved.push(self.isas[k].1);
        k
    }
    fn cmo(&mut self, v: u64) -> usize {
        let k = self.idx(v, self.cmos.len());
        self.resolved.push(self.cmos[k].1);
        k
    }
    fn iommu(&mut self, v: u64) -> rimt::IommuOffset {
        let k = self.idx(v, self.iommus.len());
        self.resolved.push(self.iommus[k].1);
        self.iommus[k].0
    }
    fn tran(&mut self, v: u64) -> usize {
        let k = self.idx(v, self.trans.len());
        self.resolved.push(self.trans[k].1);
        k
    }
}

fn gas_of(v: &[u64]) -> GAS {
    let space = match v[0] {
        0 => AddressSpace::SystemMemory,
        1 => AddressSpace::SystemIo,
        2 => AddressSpace::PciConfigSpace,
        3 => AddressSpace::EmbeddedController,
        4 => AddressSpace::Smbus,
        5 => AddressSpace::SystemCmos,
        6 => AddressSpace::PciBarTarget,
        7 => AddressSpace::Ipmi,
        8 => AddressSpace::GeneralPursposeIo,
        9 => AddressSpace::GenericSerialBus,
        10 => AddressSpace::PlatformCommunicationsChannel,
        11 => AddressSpace::PlatformRuntimeMechanism,
        0x7f => AddressSpace::FunctionalFixedHardware,
        _ => panic!("gas space"),
    };
    let acc = match v[3] {
        0 => AccessSize::Undefined,
        1 => AccessSize::ByteAccess,
        2 => AccessSize::WordAccess,
        3 => AccessSize::DwordAccess,
        4 => AccessSize::QwordAccess,
        _ => panic!("gas access"),
    };
    GAS::new(space, v[1] as u8, v[2] as u8, acc, v[4])
}

fn notif_type(v: u64) -> hest::NotificationType {
    use hest::NotificationType::*;
    [Polled, ExternalIrq, LocalIrq, Sci, Nmi, Cmci, Mce, GpioSignal, Armv8Sea, Armv8Sei, ExternalGsiv,
     SoftwareException, RiscvSupervisorSoftwareEvent, RiscvLowPriorityRasInterrupt,
     RiscvHighPriorityRasInterrupt, RiscvHardwareErrorException][v as usize]
}

fn notif_of(v: &[u64]) -> hest::NotificationStructure {
    hest::NotificationStructure::new(notif_type(v[0]))
        .conf_write_en(v[1] as u16)
        .poll_interval_ms(v[2] as u32)
        .vector(v[3] as u32)
        .polling_threshold_value(v[4] as u32)
        .polling_threshold_window_ms(v[5] as u32)
        .error_threshold_value(v[6] as u32)
        .error_threshold_window_ms(v[7] as u32)
}

fn arr<const N: usize>(b: &[u8]) -> [u8; N] {
    let mut a = [0u8; N];
    a.copy_from_slice(b);
    a
}

fn idmaps(subs: &[Vec<u64>], hs: &mut Handles) -> Vec<rimt::IdMapping> {
    subs.iter()
        .map(|t| {
            let off = hs.iommu(t[3]);
            rimt::IdMapping::new(t[0] as u32, t[1] as u32, t[2] as u32, off, t[4] != 0, t[5] != 0, t[6] != 0)
        })
        .collect()
}

/// A built entry, ready to be serialised alone or added to its table.
pub enum Ent {
    Lapic(madt::ProcessorLocalApic),
    IoApic(madt::IoApic),
    Gicc(madt::Gicc),
    Gicd(madt::Gicd),
    GicMsi(madt::GicMsi),
    Gicr(madt::Gicr),
    Its(madt::GicIts),
    Rintc(madt::RINTC),
    Imsic(madt::IMSIC),
    Aplic(madt::APLIC),
    Plic(madt::PLIC),
    Mem(srat::MemoryAffinity),
    Gi(srat::GenericInitiator),
    RintcAff(srat::RintcAffinity),
    Mpd(hmat::MemoryProximityDomain),
    Loc(hmat::SystemLocality),
    Msc(hmat::MemorySideCache),
    Proc(pptt::ProcessorNode),
    Cache(pptt::CacheNode),
    Isa(&'static str),
    Cmo(rhct::CmoNode),
    Mmu(u64),
    Hart(rhct::HartInfoNode),
    Iommu(rimt::Iommu),
    PcieRc(rimt::PcieRootComplex),
    Platform(rimt::Platform),
    IdMap(rimt::IdMapping),
    Wire(rimt::InterruptWire),
    PciRange(viot::PciRange),
    MmioEp(viot::MmioEndpoint),
    PciIommu(viot::VirtIoPciIommu),
    MmioIommu(viot::VirtIoMmioIommu),
    Chbs(cedt::CxlHostBridge),
    Cfmws(cedt::CxlFixedMemory),
    Cxims(cedt::XorInterleaveMath),
    Rdpas(cedt::PortAssociation),
    AerRp(hest::PcieAerRootPort),
    AerDev(hest::PcieAerDevice),
    AerBr(hest::PcieAerBridge),
    Ghes(hest::GenericHardwareSource),
    GhesV2(hest::GenericHardwareSourceV2),
    Notif(hest::NotificationStructure),
    Ges(hest::GenericErrorStatus),
    Ged(hest::GenericErrorData),
    Ecam(u64, u16, u8, u8),
    XsdtEntry(u64),
    QosCtrl(rqsc::QoSController),
    Gas(GAS),
    /// a crate type that is not a MADT structure handed to the generic `MADT::add_structure<T>`
    MadtGas(GAS),
    /// a caller-defined type handed to `MADT::add_structure<T>`: serialises field by field through the
    /// typed sink entry points (not one `vec(as_bytes())`)
    MadtUser(UserEntry),
    /// the same for `HEST::add_structure<T>`
    HestUser(UserEntry),
    /// a primitive integer handed to `MADT::add_structure<T>` / `HEST::add_structure<T>`: the integers
    /// satisfy the bound (`IntoBytes` from zerocopy, `Aml` from the crate) although their AML form
    /// (prefix byte, narrowest width) is not their raw form — recorded finding KF-ADDSTRUCT-INT
    IntM(u64, u64),
    IntH(u64, u64),
    /// a downstream `aml_as_bytes!` type (see `macro_types`) of the given raw bytes, through MADT / HEST
    MacroM(Vec<u8>),
    MacroH(Vec<u8>),
}

/// downstream types made with the crate's exported `aml_as_bytes!` macro, one per size 1..=16
/// (the macro is public API: its expansion must serialise any `IntoBytes` type as its raw bytes)
pub mod macro_types {
    use acpi_tables::{Aml, AmlSink};
    use zerocopy::IntoBytes;
    macro_rules! mtype {
        ($name:ident, $n:expr) => {
            #[repr(C, packed)]
            #[derive(Clone, Copy, Debug, zerocopy::IntoBytes, zerocopy::Immutable)]
            pub struct $name(pub [u8; $n]);
            acpi_tables::aml_as_bytes!($name);
        };
    }
    mtype!(M1, 1); mtype!(M2, 2); mtype!(M3, 3); mtype!(M4, 4); mtype!(M5, 5); mtype!(M6, 6); mtype!(M7, 7); mtype!(M8, 8);
    mtype!(M9, 9); mtype!(M10, 10); mtype!(M11, 11); mtype!(M12, 12); mtype!(M13, 13); mtype!(M14, 14); mtype!(M15, 15); mtype!(M16, 16);
    /// run `$f!(value)` on the macro type of the slice's length
    #[macro_export]
    macro_rules! with_mtype {
        ($b:expr, $f:ident) => {{
            use $crate::s_tables::macro_types::*;
            let b: &[u8] = $b;
            fn a<const N: usize>(b: &[u8]) -> [u8; N] { let mut x = [0u8; N]; x.copy_from_slice(b); x }
            match b.len() {
                1 => $f!(M1(a(b))), 2 => $f!(M2(a(b))), 3 => $f!(M3(a(b))), 4 => $f!(M4(a(b))), 5 => $f!(M5(a(b))), 6 => $f!(M6(a(b))),
                7 => $f!(M7(a(b))), 8 => $f!(M8(a(b))), 9 => $f!(M9(a(b))), 10 => $f!(M10(a(b))), 11 => $f!(M11(a(b))), 12 => $f!(M12(a(b))),
                13 => $f!(M13(a(b))), 14 => $f!(M14(a(b))), 15 => $f!(M15(a(b))), 16 => $f!(M16(a(b))),
                _ => panic!("macro type size"),
            }
        }};
    }
}

/// a user-written table entry: `#[repr(C, packed)]`, `IntoBytes`, and a hand-written `Aml` impl that
/// emits its fields through byte / byte / word / qword (a *lawful* foreign type: raw form = serialised form)
#[repr(C, packed)]
#[derive(Clone, Copy, Debug, zerocopy::IntoBytes, zerocopy::Immutable)]
pub struct UserEntry {
    pub ty: u8,
    pub len: u8,
    pub flags: [u8; 2],
    pub addr: [u8; 8],
}

impl Aml for UserEntry {
    fn to_aml_bytes(&self, sink: &mut dyn acpi_tables::AmlSink) {
        sink.byte(self.ty);
        sink.byte(self.len);
        sink.word(u16::from_le_bytes(self.flags));
        sink.qword(u64::from_le_bytes(self.addr));
    }
}

/// look at an object while it is still being built: serialise it and take its byte sum, discarding both
/// (a serialiser may refuse a half-built object; that is not an observation)
fn peek(a: &dyn Aml) {
    let _ = std::panic::catch_unwind(std::panic::AssertUnwindSafe(|| {
        let mut v = Vec::new();
        a.to_aml_bytes(&mut v);
        acpi_tables::u8sum(a)
    }));
}

fn en3<T: Copy>(v: u64, xs: &[T]) -> T {
    xs[v as usize]
}

pub fn build(op: &Op, hs: &mut Handles) -> Ent {
    let n = |i: usize| -> u64 { op.n.get(i).copied().unwrap_or(0) };
    let blob = |i: usize| -> &[u8] { op.b.get(i).map(|v| v.as_slice()).unwrap_or(&[]) };
    // entries with `&mut self` mutators can be serialised between two mutator calls; a third of the
    // builder programs do so after every call (serialise, then mutate, then serialise again)
    let peeking = op.o.len() % 3 == 2 && op.o.len() <= 64;
    match op.kind.as_str() {
        "lapic" => Ent::Lapic(madt::ProcessorLocalApic::new(
            n(0) as u8, n(1) as u8,
            en3(n(2), &[madt::EnabledStatus::Disabled, madt::EnabledStatus::Enabled, madt::EnabledStatus::DisabledOnlineCapable]))),
        "ioapic" => Ent::IoApic(madt::IoApic::new(n(0) as u8, n(1) as u32, n(2) as u32)),
        "gicc" => {
            let mut g = madt::Gicc::new(en3(n(0), &[madt::EnabledStatus::Disabled, madt::EnabledStatus::Enabled, madt::EnabledStatus::DisabledOnlineCapable]));
            for (nm, v) in &op.o {
                let trig = |x: u64| if x == 0 { madt::Trigger::Edge } else { madt::Trigger::Level };
                g = match nm.as_str() {
                    "pi" => g.performance_interrupt(v[0] as u32, trig(v[1])),
                    "mi" => g.maintenance_interrupt(v[0] as u32, trig(v[1])),
                    "set" => match v[0] {
                        1 => g.cpu_interface_number(v[1] as u32),
                        2 => g.acpi_processor_uid(v[1] as u32),
                        3 => g.parking_protocol_version(v[1] as u32),
                        5 => g.parked_address(v[1]),
                        6 => g.base_address(v[1]),
                        7 => g.virtual_registers(v[1]),
                        8 => g.control_block_registers(v[1]),
                        10 => g.redistributor_base(v[1]),
                        11 => g.mpidr(v[1]),
                        12 => g.power_efficiency_class(v[1] as u8),
                        13 => g.overflow_interrupt(v[1] as u16),
                        14 => g.trbe_interrupt(v[1] as u16),
                        _ => panic!("gicc slot"),
                    },
                    _ => panic!("gicc opt"),
                };
            }
            Ent::Gicc(g)
        }
        "gicd" => Ent::Gicd(madt::Gicd::new(n(0) as u32, n(1),
            en3(n(2), &[madt::GicVersion::Unspecified, madt::GicVersion::GICv1, madt::GicVersion::GICv2, madt::GicVersion::GICv3, madt::GicVersion::GICv4]))),
        "gicmsi" => {
            let mut g = madt::GicMsi::new();
            for (nm, v) in &op.o {
                g = match (nm.as_str(), v[0]) {
                    ("set", 0) => g.gic_msi_frame_id(v[1] as u32),
                    ("set", 1) => g.base_addr(v[1]),
                    ("spi", _) => g.spi_count_and_base(v[0] as u16, v[1] as u16),
                    _ => panic!("gicmsi opt"),
                };
            }
            Ent::GicMsi(g)
        }
        "gicr" => Ent::Gicr(madt::Gicr::new(n(0), n(1) as u32)),
        "its" => Ent::Its(madt::GicIts::new(n(0) as u32, n(1))),
        "rintc" => Ent::Rintc(madt::RINTC::new(
            en3(n(0), &[madt::HartStatus::Disabled, madt::HartStatus::Enabled, madt::HartStatus::OnlineCapable]),
            n(1), n(2) as u32, n(3) as u32, n(4), n(5) as u32)),
        "imsic" => Ent::Imsic(madt::IMSIC::new(n(0) as u16, n(1) as u16, n(2) as u8, n(3) as u8, n(4) as u8, n(5) as u8)),
        "aplic" => Ent::Aplic(madt::APLIC::new(n(0) as u8, arr::<8>(blob(0)), n(1) as u16, n(2) as u32, n(3), n(4) as u32, n(5) as u16)),
        "plic" => Ent::Plic(madt::PLIC::new(n(0) as u8, arr::<8>(blob(0)), n(1) as u16, n(2) as u16, n(3) as u32, n(4), n(5) as u32)),
        "mem" => {
            let mut m = srat::MemoryAffinity::new(n(0) as u32, n(1), n(2));
            for (nm, _) in &op.o {
                m = match nm.as_str() { "en" => m.enabled(), "hp" => m.hotpluggable(), "nv" => m.nonvolatile(), _ => panic!("mem opt") };
            }
            Ent::Mem(m)
        }
        "gi" => {
            let h = if n(1) == 1 {
                srat::Handle::new_pci(n(2) as u16, n(3) as u8, n(4) as u8, n(5) as u8)
            } else {
                srat::Handle::new_acpi(arr::<8>(blob(0)), arr::<4>(blob(1)))
            };
            let mut g = srat::GenericInitiator::new(n(0) as u32, h);
            for (nm, _) in &op.o {
                g = match nm.as_str() { "en" => g.enabled(), "arch" => g.architectural(), _ => panic!("gi opt") };
            }
            Ent::Gi(g)
        }
        "rintcaff" => {
            let mut r = srat::RintcAffinity::new(arr::<4>(blob(0)), n(0) as u32);
            for (nm, v) in &op.o {
                r = match nm.as_str() { "en" => r.enabled(), "pd" => r.proximity_domain(v[0] as u32), _ => panic!("rintcaff opt") };
            }
            Ent::RintcAff(r)
        }
        "mpd" => Ent::Mpd(hmat::MemoryProximityDomain::new(n(0) as u32, n(1) as u32)),
        "loc" => {
            use hmat::{DataType::*, LocalityType::*, MinTransferSize::*};
            let lt = match n(0) { 0 => Memory, 1 => FirstLevelCache, 2 => SecondLevelCache, _ => ThirdLevelCache };
            let dt = en3(n(1), &[AccessLatency, ReadLatency, WriteLatency, AccessBandwidth, ReadBandwidth, WriteBandwidth]);
            let mts = en3(n(2), &[SizeByteAligned, Size64b, Size128b, Size256b, Size512b, Size1k, Size2k, Size4k, Size8k, Size16k, Size32k, Size64k]);
            let mut l = hmat::SystemLocality::new(lt, dt, mts, n(3), n(4) as usize, n(5) as usize);
            for (nm, v) in &op.o {
                match nm.as_str() {
                    "nst" => l.non_sequential_transfers(),
                    "mtsr" => l.minimum_transfer_size_required(),
                    "seti" => l.set_initiator_value(v[0] as usize, v[1] as u32),
                    "sett" => l.set_target_value(v[0] as usize, v[1] as u32),
                    "sete" => l.set_entry_value(v[0] as usize, v[1] as usize, v[2] as u16),
                    _ => panic!("loc opt"),
                }
                if peeking { peek(&l); }
            }
            Ent::Loc(l)
        }
        "msc" => {
            use hmat::{Associativity as A, CacheLevel as C, WritePolicy as W};
            let cl = |v: u64| match v { 0 => C::None, 1 => C::One, 2 => C::Two, _ => C::Three };
            let mut m = hmat::MemorySideCache::new(n(0) as u32, n(1), cl(n(2)), cl(n(3)),
                match n(4) { 0 => A::None, 1 => A::DirectMapped, _ => A::Complex },
                match n(5) { 0 => W::None, 1 => W::Writeback, _ => W::Writethrough }, n(6) as u16);
            for (nm, v) in &op.o {
                assert!(nm == "h");
                m.add_smbios_handle(v[0] as u16);
                if peeking { peek(&m); }
            }
            Ent::Msc(m)
        }
        "proc" => {
            let parent = if n(0) == 0 { None } else { Some(hs.proc(n(0))) };
            let mut p = pptt::ProcessorNode::new(parent.as_ref(), n(1) as u32);
            for (nm, v) in &op.o {
                p = match nm.as_str() {
                    "physical" => p.physical(),
                    "valid" => p.valid(),
                    "thread" => p.thread(),
                    "leaf" => p.leaf(),
                    "identical" => p.identical(),
                    "cache" => { let c = hs.cache(v[0]); p.add_cache(&c) }
                    // direct assignment of one of the three public fields, between builder calls
                    "set" => {
                        match v[0] { 0 => p.flags = v[1] as u32, 1 => p.parent = v[1] as u32, 2 => p.acpi_processor_id = v[1] as u32, _ => panic!("proc slot") }
                        p
                    }
                    _ => panic!("proc opt"),
                };
                if peeking { peek(&p); }
            }
            Ent::Proc(p)
        }
        "cache" => {
            let mut c = pptt::CacheNodeBuilder::default();
            for (nm, v) in &op.o {
                c = match nm.as_str() {
                    "next" => { let h = hs.cache(v[0]); c.next_level(&h) }
                    "size" => c.size(v[0] as u32),
                    "sets" => c.sets(v[0] as u32),
                    "assoc" => c.associativity(v[0] as u8),
                    "alloc" => c.allocation_type(en3(v[0], &[pptt::AllocationType::Read, pptt::AllocationType::Write, pptt::AllocationType::Both])),
                    "ctype" => c.cache_type(en3(v[0], &[pptt::CacheType::Data, pptt::CacheType::Instruction, pptt::CacheType::Unified])),
                    "wp" => c.write_policy(en3(v[0], &[pptt::WritePolicy::Writeback, pptt::WritePolicy::Writethrough])),
                    "line" => c.line_size(v[0] as u16),
                    "id" => c.id(v[0] as u32),
                    _ => panic!("cache opt"),
                };
            }
            Ent::Cache(c.to_node())
        }
        "isa" => Ent::Isa(Box::leak(String::from_utf8(blob(0).to_vec()).expect("utf8").into_boxed_str())),
        "cmo" => Ent::Cmo(rhct::CmoNode::new(n(0) as u8, n(1) as u8, n(2) as u8)),
        "mmu" => Ent::Mmu(n(0)),
        "hart" => {
            let k = hs.isa(n(1));
            let mut h = rhct::HartInfoNode::new(n(0) as u32, &hs.isas[k].0);
            for (nm, v) in &op.o {
                assert!(nm == "cmo");
                let c = hs.cmo(v[0]);
                h = h.with_cmo(&hs.cmos[c].0);
            }
            Ent::Hart(h)
        }
        "iommu" => {
            let pci = if n(3) != 0 { Some(rimt::PciDevice::new(n(4) as u16, n(5) as u8, n(6) as u8, n(7) as u8)) } else { None };
            let wires = if n(10) != 0 {
                Some(op.s.iter().map(|t| rimt::InterruptWire::new(t[0] as u32, t[1] != 0, t[2] != 0, t[3] as u16)).collect())
            } else { None };
            Ent::Iommu(rimt::Iommu::new(n(0) as u16, if n(1) != 0 { Some(n(2)) } else { None }, pci,
                if n(8) != 0 { Some(n(9) as u32) } else { None }, wires))
        }
        "pcierc" => {
            let maps = if n(4) != 0 { Some(idmaps(&op.s, hs)) } else { None };
            Ent::PcieRc(rimt::PcieRootComplex::new(n(0) as u16, n(1) as u16, n(2) != 0, n(3) != 0, maps))
        }
        "platform" => {
            let maps = if n(1) != 0 { Some(idmaps(&op.s, hs)) } else { None };
            Ent::Platform(rimt::Platform::new(n(0) as u16, String::from_utf8(blob(0).to_vec()).expect("utf8"), maps))
        }
        "idmap" => { let off = hs.iommu(n(3)); Ent::IdMap(rimt::IdMapping::new(n(0) as u32, n(1) as u32, n(2) as u32, off, n(4) != 0, n(5) != 0, n(6) != 0)) }
        "wire" => Ent::Wire(rimt::InterruptWire::new(n(0) as u32, n(1) != 0, n(2) != 0, n(3) as u16)),
        "pcirange" => {
            let f = viot::PciDevice::new(n(0) as u16, n(1) as u8, n(2) as u8, n(3) as u8);
            let l = viot::PciDevice::new(n(4) as u16, n(5) as u8, n(6) as u8, n(7) as u8);
            let k = hs.tran(n(8));
            Ent::PciRange(viot::PciRange::new(f, l, &hs.trans[k].0))
        }
        "mmioep" => { let k = hs.tran(n(2)); Ent::MmioEp(viot::MmioEndpoint::new(n(0) as u32, n(1), &hs.trans[k].0)) }
        "pciiommu" => Ent::PciIommu(viot::VirtIoPciIommu::new(viot::PciDevice::new(n(0) as u16, n(1) as u8, n(2) as u8, n(3) as u8))),
        "mmioiommu" => Ent::MmioIommu(viot::VirtIoMmioIommu::new(n(0))),
        "chbs" => Ent::Chbs(cedt::CxlHostBridge::new(n(0) as u32, if n(1) == 0 { cedt::CxlVersion::Cxl1_1 } else { cedt::CxlVersion::Cxl2 }, n(2))),
        "cfmws" => {
            use cedt::{InterleaveArithmetic as IA, InterleaveGranularity as IG, InterleaveWays as IW};
            let ways = match n(4) { 0 => IW::Ways1, 1 => IW::Ways2, 2 => IW::Ways4, 3 => IW::Ways8, 4 => IW::Ways16, 8 => IW::Ways3, 9 => IW::Ways6, 10 => IW::Ways12, _ => panic!("ways") };
            let gran = en3(n(3), &[IG::Granularity256b, IG::Granularity512b, IG::Granularity1kb, IG::Granularity2kb, IG::Granularity4kb, IG::Granularity8kb, IG::Granularity16kb]);
            let mut c = cedt::CxlFixedMemory::new(n(0), n(1), if n(2) == 0 { IA::Modulo } else { IA::ModuloXor }, gran, ways, n(5) as u16);
            for (nm, v) in &op.o {
                match nm.as_str() {
                    "t2" => c = c.cxl_type_2_memory(),
                    "t3" => c = c.cxl_type_3_memory(),
                    "vol" => c = c.volatile(),
                    "pers" => c = c.persistent(),
                    "fixed" => c = c.fixed_configuration(),
                    "target" => c.add_target((v[0] as u32).to_le_bytes()),
                    _ => panic!("cfmws opt"),
                }
                if peeking { peek(&c); }
            }
            Ent::Cfmws(c)
        }
        "cxims" => {
            use cedt::InterleaveGranularity as IG;
            let mut x = cedt::XorInterleaveMath::new(en3(n(0), &[IG::Granularity256b, IG::Granularity512b, IG::Granularity1kb, IG::Granularity2kb, IG::Granularity4kb, IG::Granularity8kb, IG::Granularity16kb]));
            for (nm, v) in &op.o {
                assert!(nm == "map");
                x.add_xormap(v[0]);
                if peeking { peek(&x); }
            }
            Ent::Cxims(x)
        }
        "rdpas" => Ent::Rdpas(cedt::PortAssociation::new(n(0) as u16, n(1) as u8, n(2) as u8, n(3) as u8,
            if n(4) == 0 { cedt::ProtocolType::CxlIo } else { cedt::ProtocolType::CxlMem }, n(5))),
        "aerrp" | "aerdev" | "aerbr" => {
            let ff = |v: u64| if v == 0 { hest::FirmwareFirst::Disabled } else { hest::FirmwareFirst::Enabled };
            macro_rules! common { ($g:ident, $nm:expr, $v:expr) => {
                match $v[0] {
                    4 => $g.num_records($v[1] as u32), 5 => $g.max_sections($v[1] as u32), 6 => $g.device_control($v[1] as u16),
                    7 => $g.uncorrectable_error_mask($v[1] as u32), 8 => $g.uncorrectable_error_severity($v[1] as u32),
                    9 => $g.correctable_error_mask($v[1] as u32), 10 => $g.aer_cap_ctrl($v[1] as u32),
                    _ => panic!("aer slot"),
                }
            } }
            match op.kind.as_str() {
                "aerrp" => {
                    let mut g = if n(0) != 0 { hest::PcieAerRootPort::new_global() } else { hest::PcieAerRootPort::new_root_port(ff(n(1)), hest::PciDevice::new(n(2) as u8, n(3) as u8, n(4) as u8)) };
                    for (nm, v) in &op.o { assert!(nm == "set"); g = if v[0] == 11 { g.root_error_command(v[1] as u32) } else { common!(g, nm, v) }; }
                    Ent::AerRp(g)
                }
                "aerdev" => {
                    let mut g = if n(0) != 0 { hest::PcieAerDevice::new_global() } else { hest::PcieAerDevice::new_root_port(ff(n(1)), hest::PciDevice::new(n(2) as u8, n(3) as u8, n(4) as u8)) };
                    for (nm, v) in &op.o { assert!(nm == "set"); g = common!(g, nm, v); }
                    Ent::AerDev(g)
                }
                _ => {
                    let mut g = if n(0) != 0 { hest::PcieAerBridge::new_global() } else { hest::PcieAerBridge::new_bridge(ff(n(1)), hest::PciDevice::new(n(2) as u8, n(3) as u8, n(4) as u8)) };
                    for (nm, v) in &op.o {
                        assert!(nm == "set");
                        g = match v[0] {
                            11 => g.secondary_uncorrectable_error_mask(v[1] as u32),
                            12 => g.secondary_uncorrectable_error_severity(v[1] as u32),
                            13 => g.secondary_aer_cap_ctrl(v[1] as u32),
                            _ => common!(g, nm, v),
                        };
                    }
                    Ent::AerBr(g)
                }
            }
        }
        "ghes" => {
            let mut g = hest::GenericHardwareSource::new(n(0) as u16, if n(1) == 0 { hest::EnabledStatus::Disabled } else { hest::EnabledStatus::Enabled });
            for (nm, v) in &op.o {
                g = match nm.as_str() {
                    "set" => match v[0] { 2 => g.num_records(v[1] as u32), 3 => g.max_sections(v[1] as u32), 4 => g.max_raw_length(v[1] as u32), 5 => g.error_status_block_len(v[1] as u32), _ => panic!("ghes slot") },
                    "gas" => g.error_status_address(gas_of(v)),
                    "notif" => g.notification(notif_of(v)),
                    _ => panic!("ghes opt"),
                };
            }
            Ent::Ghes(g)
        }
        "ghesv2" => {
            let mut g = hest::GenericHardwareSourceV2::new(n(0) as u16, if n(1) == 0 { hest::EnabledStatus::Disabled } else { hest::EnabledStatus::Enabled });
            for (nm, v) in &op.o {
                g = match nm.as_str() {
                    "set" => match v[0] { 2 => g.num_records(v[1] as u32), 3 => g.max_sections(v[1] as u32), 4 => g.max_raw_length(v[1] as u32), 5 => g.error_status_block_len(v[1] as u32),
                        25 => g.read_ack_preserve(v[1]), 26 => g.read_ack_write(v[1]), _ => panic!("ghesv2 slot") },
                    "gas" => g.error_status_address(gas_of(v)),
                    "gas2" => g.read_ack_register(gas_of(v)),
                    "notif" => g.notification(notif_of(v)),
                    _ => panic!("ghesv2 opt"),
                };
            }
            Ent::GhesV2(g)
        }
        "notif" => {
            let mut x = hest::NotificationStructure::new(notif_type(n(0)));
            for (nm, v) in &op.o {
                assert!(nm == "set");
                x = match v[0] { 2 => x.conf_write_en(v[1] as u16), 3 => x.poll_interval_ms(v[1] as u32), 4 => x.vector(v[1] as u32),
                    5 => x.polling_threshold_value(v[1] as u32), 6 => x.polling_threshold_window_ms(v[1] as u32),
                    7 => x.error_threshold_value(v[1] as u32), 8 => x.error_threshold_window_ms(v[1] as u32), _ => panic!("notif slot") };
            }
            Ent::Notif(x)
        }
        "ges" => {
            use hest::ErrorSeverity::*;
            Ent::Ges(hest::GenericErrorStatus::new(n(0) as u32, n(1) as u32, en3(n(2), &[Recoverable, Fatal, Correctable, None])))
        }
        "ged" => {
            use hest::ErrorSeverity::*;
            let mut g = hest::GenericErrorData::new(en3(n(1), &[Recoverable, Fatal, Correctable, None]));
            g.section_type = n(0) as u16;
            g.revision = n(2) as u16;
            g.validation = n(3) as u8;
            g.flags = n(4) as u8;
            g.error_data_length = n(5) as u32;
            g.fru_id = arr::<16>(blob(0));
            g.fru_text = arr::<20>(blob(1));
            g.timestamp = arr::<8>(blob(2));
            for extra in op.b.iter().skip(3) {
                g.add_data(Box::new(RawAml(extra.clone())));
                if op.b.len() % 3 == 2 { peek(&g); }
            }
            Ent::Ged(g)
        }
        "ecam" => Ent::Ecam(n(0), n(1) as u16, n(2) as u8, n(3) as u8),
        "xsdtentry" => Ent::XsdtEntry(n(0)),
        "qosctrl" => {
            let mut q = rqsc::QoSController::new(if n(0) == 0 { rqsc::ControllerType::Capacity } else { rqsc::ControllerType::Bandwidth },
                gas_of(&op.n[1..6]), n(6) as u32, n(7) as u32, n(8) as u16);
            for (i, t) in op.s.iter().enumerate() {
                // an all-zero typed resource is built through its `Default` impl (the documented way to say
                // "no SRAT / proximity domain 0"): same value as `new(0, ..)`, a different construction path
                let zero = t[3] == 0 && t.get(4).copied().unwrap_or(0) == 0;
                let id = match t[2] {
                    0 if zero => rqsc::ResourceID::Cache(Default::default()),
                    1 if zero => rqsc::ResourceID::MemoryAffinityStructure(Default::default()),
                    2 if zero => rqsc::ResourceID::ACPIDevice(Default::default()),
                    3 if zero => rqsc::ResourceID::PCIDevice(Default::default()),
                    0 => rqsc::ResourceID::Cache(rqsc::CacheResource::new(t[3] as u32)),
                    1 => rqsc::ResourceID::MemoryAffinityStructure(rqsc::MemoryAffinityStructureResource::new(t[3] as u32, t[4])),
                    2 => rqsc::ResourceID::ACPIDevice(rqsc::ACPIDeviceResource::new(t[3], t[4] as u32)),
                    3 => rqsc::ResourceID::PCIDevice(rqsc::PCIDeviceResource::new(t[3] as u32)),
                    _ => rqsc::ResourceID::VendorSpecific(t[3] as u8, op.b.get(i).cloned().unwrap_or_default()),
                };
                q.add_resource(rqsc::ResourceStructure::new(if t[0] == 0 { rqsc::ResourceType::Cache } else { rqsc::ResourceType::Memory }, t[1] as u16, id));
                if op.s.len() % 3 == 2 && op.s.len() <= 64 { peek(&q); }
            }
            // the controller handed to the table may be a copy made through the `Clone` trait: `clone()`, or
            // `clone_from` into an existing controller of another size (both are public API of a non-`Copy` type)
            let q = match n(8) % 3 {
                1 => q.clone(),
                2 => {
                    let mut d = rqsc::QoSController::new(rqsc::ControllerType::Capacity, gas_of(&[0, 8, 0, 1, 4096]), 1, 2, 3);
                    d.add_resource(rqsc::ResourceStructure::new(rqsc::ResourceType::Cache, 0, rqsc::ResourceID::Cache(rqsc::CacheResource::new(7))));
                    d.clone_from(&q);
                    d
                }
                _ => q,
            };
            Ent::QosCtrl(q)
        }
        "gas" => Ent::Gas(gas_of(&op.n)),
        // entries outside the modelled builder programs, decided in opaque mode only (C01, C02, C05, C14):
        // `derive(Default)` values of the public entry structs (optionally followed by their setters),
        // crate types and caller-defined types handed to the generic `add_structure<T>`
        "dflt" => match n(0) {
            0 => Ent::Lapic(Default::default()),
            1 => Ent::IoApic(Default::default()),
            2 => Ent::Gicc(Default::default()),
            3 => Ent::Gicd(Default::default()),
            4 => Ent::GicMsi(Default::default()),
            5 => Ent::Gicr(Default::default()),
            6 => Ent::Its(Default::default()),
            7 => Ent::Rintc(Default::default()),
            8 => Ent::Imsic(Default::default()),
            10 => {
                let mut r = srat::RintcAffinity::default();
                for (nm, v) in &op.o {
                    r = match nm.as_str() { "en" => r.enabled(), "pd" => r.proximity_domain(v[0] as u32), _ => panic!("dflt opt") };
                }
                Ent::RintcAff(r)
            }
            11 => Ent::Mpd(Default::default()),
            12 => Ent::Cache(Default::default()),
            20 => Ent::AerRp(Default::default()),
            21 => Ent::AerDev(Default::default()),
            22 => Ent::AerBr(Default::default()),
            23 => Ent::Ghes(Default::default()),
            24 => Ent::GhesV2(Default::default()),
            // a source built by its constructor whose notification structure is a `Default` value + setters
            25 => Ent::Ghes(hest::GenericHardwareSource::new(n(1) as u16, if n(2) != 0 { hest::EnabledStatus::Enabled } else { hest::EnabledStatus::Disabled })
                .notification(hest::NotificationStructure::default().poll_interval_ms(n(3) as u32).vector(n(4) as u32))),
            26 => Ent::GhesV2(hest::GenericHardwareSourceV2::new(n(1) as u16, if n(2) != 0 { hest::EnabledStatus::Enabled } else { hest::EnabledStatus::Disabled })
                .notification(hest::NotificationStructure::default().poll_interval_ms(n(3) as u32).vector(n(4) as u32))),
            30 => Ent::QosCtrl(Default::default()),
            40 => Ent::MadtGas(gas_of(&op.n[1..6])),
            41 => Ent::MadtUser(UserEntry { ty: n(1) as u8, len: 12, flags: (n(2) as u16).to_le_bytes(), addr: n(3).to_le_bytes() }),
            45 => Ent::MacroM(blob(0).to_vec()),
            46 => Ent::MacroH(blob(0).to_vec()),
            43 => Ent::IntM(n(1), n(2)),
            44 => Ent::IntH(n(1), n(2)),
            42 => Ent::HestUser(UserEntry { ty: n(1) as u8, len: 12, flags: (n(2) as u16).to_le_bytes(), addr: n(3).to_le_bytes() }),
            v => panic!("unknown dflt variant {}", v),
        },
        k => panic!("unknown kind {}", k),
    }
}

fn ecam_bytes(b: u64, s: u16, sb: u8, eb: u8) -> Vec<u8> {
    let mut v = b.to_le_bytes().to_vec();
    v.extend_from_slice(&s.to_le_bytes());
    v.push(sb);
    v.push(eb);
    v.extend_from_slice(&[0; 4]);
    v
}

impl Ent {
    /// the entry serialised on its own, through the `Aml` trait where the type has one
    pub fn ser(&self) -> Vec<u8> {
        match self {
            Ent::Lapic(x) => ser(x), Ent::IoApic(x) => ser(x), Ent::Gicc(x) => ser(x), Ent::Gicd(x) => ser(x),
            Ent::GicMsi(x) => ser(x), Ent::Gicr(x) => ser(x), Ent::Its(x) => ser(x), Ent::Rintc(x) => ser(x),
            Ent::Imsic(x) => ser(x), Ent::Aplic(x) => ser(x), Ent::Plic(x) => ser(x),
            Ent::Mem(x) => ser(x), Ent::Gi(x) => ser(x), Ent::RintcAff(x) => ser(x),
            Ent::Mpd(x) => ser(x), Ent::Loc(x) => ser(x), Ent::Msc(x) => ser(x),
            Ent::Proc(x) => ser(x), Ent::Cache(x) => ser(x),
            Ent::Isa(s) => ser(&rhct::IsaStringNode::new(s)),
            Ent::Cmo(x) => ser(x),
            Ent::Mmu(v) => ser(&rhct::MmuNode::new(mmu_scheme(*v))),
            Ent::Hart(x) => ser(x),
            Ent::Iommu(x) => ser(x), Ent::PcieRc(x) => ser(x), Ent::Platform(x) => ser(x), Ent::IdMap(x) => ser(x), Ent::Wire(x) => ser(x),
            Ent::PciRange(x) => ser(x), Ent::MmioEp(x) => ser(x), Ent::PciIommu(x) => ser(x), Ent::MmioIommu(x) => ser(x),
            Ent::Chbs(x) => ser(x), Ent::Cfmws(x) => ser(x), Ent::Cxims(x) => ser(x), Ent::Rdpas(x) => ser(x),
            Ent::AerRp(x) => ser(x), Ent::AerDev(x) => ser(x), Ent::AerBr(x) => ser(x), Ent::Ghes(x) => ser(x), Ent::GhesV2(x) => ser(x),
            Ent::Notif(x) => ser(x), Ent::Ges(x) => ser(x), Ent::Ged(x) => ser(x),
            Ent::Ecam(b, s, sb, eb) => ecam_bytes(*b, *s, *sb, *eb),
            Ent::XsdtEntry(v) => v.to_le_bytes().to_vec(),
            Ent::QosCtrl(x) => ser(x),
            Ent::Gas(x) => ser(x), Ent::MadtGas(x) => ser(x), Ent::MadtUser(x) => ser(x), Ent::HestUser(x) => ser(x),
            Ent::IntM(w, v) | Ent::IntH(w, v) => match w { 8 => ser(&(*v as u8)), 16 => ser(&(*v as u16)), 32 => ser(&(*v as u32)), _ => ser(v) },
            Ent::MacroM(b) | Ent::MacroH(b) => { macro_rules! f { ($v:expr) => { ser(&$v) } } crate::with_mtype!(b, f) }
        }
    }
    /// raw in-memory form (`as_bytes`) for the `IntoBytes` structures (C14)
    pub fn as_bytes(&self) -> Option<Vec<u8>> {
        Some(match self {
            Ent::Lapic(x) => x.as_bytes().to_vec(), Ent::IoApic(x) => x.as_bytes().to_vec(), Ent::Gicc(x) => x.as_bytes().to_vec(),
            Ent::Gicd(x) => x.as_bytes().to_vec(), Ent::GicMsi(x) => x.as_bytes().to_vec(), Ent::Gicr(x) => x.as_bytes().to_vec(),
            Ent::Its(x) => x.as_bytes().to_vec(), Ent::Rintc(x) => x.as_bytes().to_vec(), Ent::Imsic(x) => x.as_bytes().to_vec(),
            Ent::Aplic(x) => x.as_bytes().to_vec(), Ent::Plic(x) => x.as_bytes().to_vec(),
            Ent::RintcAff(x) => x.as_bytes().to_vec(), Ent::Mpd(x) => x.as_bytes().to_vec(), Ent::Cache(x) => x.as_bytes().to_vec(),
            Ent::AerRp(x) => x.as_bytes().to_vec(), Ent::AerDev(x) => x.as_bytes().to_vec(), Ent::AerBr(x) => x.as_bytes().to_vec(),
            Ent::Ghes(x) => x.as_bytes().to_vec(), Ent::GhesV2(x) => x.as_bytes().to_vec(), Ent::Notif(x) => x.as_bytes().to_vec(),
            Ent::Gas(x) => x.as_bytes().to_vec(), Ent::MadtGas(x) => x.as_bytes().to_vec(),
            Ent::MadtUser(x) => x.as_bytes().to_vec(), Ent::HestUser(x) => x.as_bytes().to_vec(),
            Ent::IntM(w, v) | Ent::IntH(w, v) => match w { 8 => (*v as u8).as_bytes().to_vec(), 16 => (*v as u16).as_bytes().to_vec(), 32 => (*v as u32).as_bytes().to_vec(), _ => v.as_bytes().to_vec() },
            Ent::MacroM(b) | Ent::MacroH(b) => { macro_rules! f { ($v:expr) => { $v.as_bytes().to_vec() } } crate::with_mtype!(b, f) }
            _ => return None,
        })
    }
    /// run `f` on the entry as a `&dyn Aml`, for the kinds that are `Aml` objects
    pub fn with_aml<R>(&self, f: impl FnOnce(&dyn Aml) -> R) -> Option<R> {
        Some(match self {
            Ent::Lapic(x) => f(x), Ent::IoApic(x) => f(x), Ent::Gicc(x) => f(x), Ent::Gicd(x) => f(x),
            Ent::GicMsi(x) => f(x), Ent::Gicr(x) => f(x), Ent::Its(x) => f(x), Ent::Rintc(x) => f(x),
            Ent::Imsic(x) => f(x), Ent::Aplic(x) => f(x), Ent::Plic(x) => f(x),
            Ent::Mem(x) => f(x), Ent::Gi(x) => f(x), Ent::RintcAff(x) => f(x),
            Ent::Mpd(x) => f(x), Ent::Loc(x) => f(x), Ent::Msc(x) => f(x),
            Ent::Proc(x) => f(x), Ent::Cache(x) => f(x),
            Ent::Isa(s) => f(&rhct::IsaStringNode::new(s)),
            Ent::Cmo(x) => f(x),
            Ent::Mmu(v) => f(&rhct::MmuNode::new(mmu_scheme(*v))),
            Ent::Hart(x) => f(x),
            Ent::Iommu(x) => f(x), Ent::PcieRc(x) => f(x), Ent::Platform(x) => f(x), Ent::IdMap(x) => f(x), Ent::Wire(x) => f(x),
            Ent::PciRange(x) => f(x), Ent::MmioEp(x) => f(x), Ent::PciIommu(x) => f(x), Ent::MmioIommu(x) => f(x),
            Ent::Chbs(x) => f(x), Ent::Cfmws(x) => f(x), Ent::Cxims(x) => f(x), Ent::Rdpas(x) => f(x),
            Ent::AerRp(x) => f(x), Ent::AerDev(x) => f(x), Ent::AerBr(x) => f(x), Ent::Ghes(x) => f(x), Ent::GhesV2(x) => f(x),
            Ent::Notif(x) => f(x), Ent::Ges(x) => f(x), Ent::Ged(x) => f(x),
            Ent::QosCtrl(x) => f(x), Ent::Gas(x) => f(x), Ent::MadtGas(x) => f(x), Ent::MadtUser(x) => f(x), Ent::HestUser(x) => f(x),
            Ent::IntM(w, v) | Ent::IntH(w, v) => match w { 8 => f(&(*v as u8)), 16 => f(&(*v as u16)), 32 => f(&(*v as u32)), _ => f(v) },
            Ent::MacroM(b) | Ent::MacroH(b) => { macro_rules! g { ($v:expr) => { f(&$v) } } crate::with_mtype!(b, g) }
            Ent::Ecam(..) | Ent::XsdtEntry(..) => return None,
        })
    }
    pub fn u8sum(&self) -> Option<u8> {
        macro_rules! s { ($x:expr) => { Some(acpi_tables::u8sum($x)) } }
        match self {
            Ent::Lapic(x) => s!(x), Ent::Gicc(x) => s!(x), Ent::Mem(x) => s!(x), Ent::Gi(x) => s!(x), Ent::RintcAff(x) => s!(x),
            Ent::Mpd(x) => s!(x), Ent::Loc(x) => s!(x), Ent::Msc(x) => s!(x), Ent::Proc(x) => s!(x), Ent::Cache(x) => s!(x),
            Ent::Cmo(x) => s!(x), Ent::Hart(x) => s!(x), Ent::Iommu(x) => s!(x), Ent::PcieRc(x) => s!(x), Ent::Platform(x) => s!(x),
            Ent::PciRange(x) => s!(x), Ent::MmioEp(x) => s!(x), Ent::Chbs(x) => s!(x), Ent::Cfmws(x) => s!(x), Ent::Cxims(x) => s!(x),
            Ent::Rdpas(x) => s!(x), Ent::Ghes(x) => s!(x), Ent::QosCtrl(x) => s!(x), Ent::Gas(x) => s!(x),
            Ent::MadtGas(x) => s!(x), Ent::MadtUser(x) => s!(x), Ent::HestUser(x) => s!(x),
            _ => None,
        }
    }
}

fn mmu_scheme(v: u64) -> rhct::VirtualAddressScheme {
    match v { 0 => rhct::VirtualAddressScheme::Sv39, 1 => rhct::VirtualAddressScheme::Sv48, _ => rhct::VirtualAddressScheme::Sv57 }
}

pub enum Tab {
    Xsdt(xsdt::XSDT), Mcfg(mcfg::MCFG), Madt(madt::MADT), Srat(srat::SRAT), Hmat(hmat::HMAT), Pptt(pptt::PPTT),
    Cedt(cedt::CEDT), Rhct(rhct::RHCT), Rimt(rimt::RIMT), Viot(viot::VIOT), Hest(hest::HEST), Rqsc(rqsc::RQSC),
}

pub fn first_offset(t: &str) -> usize {
    match t { "xsdt" | "pptt" | "cedt" => 36, "mcfg" | "madt" => 44, "srat" => 48, "hmat" | "hest" | "rqsc" => 40, "rhct" => 56, "rimt" | "viot" => 48, _ => panic!("table") }
}

impl Tab {
    pub fn new(t: &str, oid: [u8; 6], otab: [u8; 8], orev: u32, ctor: &[u64]) -> Tab {
        match t {
            "xsdt" => Tab::Xsdt(xsdt::XSDT::new(oid, otab, orev)),
            "mcfg" => Tab::Mcfg(mcfg::MCFG::new(oid, otab, orev)),
            "madt" => Tab::Madt(madt::MADT::new(oid, otab, orev, if ctor.first().copied().unwrap_or(0) == 0 { madt::LocalInterruptController::Riscv } else { madt::LocalInterruptController::Address(ctor[1] as u32) })),
            "srat" => Tab::Srat(srat::SRAT::new(oid, otab, orev)),
            "hmat" => Tab::Hmat(hmat::HMAT::new(oid, otab, orev)),
            "pptt" => Tab::Pptt(pptt::PPTT::new(oid, otab, orev)),
            "cedt" => Tab::Cedt(cedt::CEDT::new(oid, otab, orev)),
            "rhct" => Tab::Rhct(rhct::RHCT::new(oid, otab, orev, ctor.first().copied().unwrap_or(0))),
            "rimt" => Tab::Rimt(rimt::RIMT::new(oid, otab, orev)),
            "viot" => Tab::Viot(viot::VIOT::new(oid, otab, orev)),
            "hest" => Tab::Hest(hest::HEST::new(oid, otab, orev)),
            "rqsc" => Tab::Rqsc(rqsc::RQSC::new(oid, otab, orev)),
            _ => panic!("table"),
        }
    }
    pub fn aml(&self) -> &dyn Aml {
        match self {
            Tab::Xsdt(x) => x, Tab::Mcfg(x) => x, Tab::Madt(x) => x, Tab::Srat(x) => x, Tab::Hmat(x) => x, Tab::Pptt(x) => x,
            Tab::Cedt(x) => x, Tab::Rhct(x) => x, Tab::Rimt(x) => x, Tab::Viot(x) => x, Tab::Hest(x) => x, Tab::Rqsc(x) => x,
        }
    }
    /// add an entry through the table's public API; returns the handle value if one is handed out
    pub fn add(&mut self, e: Ent, hs: &mut Handles) -> Option<u64> {
        match (self, e) {
            (Tab::Xsdt(t), Ent::XsdtEntry(v)) => { t.add_entry(v); None }
            (Tab::Mcfg(t), Ent::Ecam(b, s, sb, eb)) => { t.add_ecam(b, s, sb, eb); None }
            (Tab::Madt(t), Ent::Lapic(x)) => { t.add_structure(x); None }
            (Tab::Madt(t), Ent::IoApic(x)) => { t.add_structure(x); None }
            (Tab::Madt(t), Ent::Gicc(x)) => { t.add_structure(x); None }
            (Tab::Madt(t), Ent::Gicd(x)) => { t.add_structure(x); None }
            (Tab::Madt(t), Ent::GicMsi(x)) => { t.add_structure(x); None }
            (Tab::Madt(t), Ent::Gicr(x)) => { t.add_structure(x); None }
            (Tab::Madt(t), Ent::Its(x)) => { t.add_structure(x); None }
            (Tab::Madt(t), Ent::Rintc(x)) => { t.add_structure(x); None }
            (Tab::Madt(t), Ent::Imsic(x)) => { t.add_imsic(x); None }
            (Tab::Madt(t), Ent::Aplic(x)) => { t.add_structure(x); None }
            (Tab::Madt(t), Ent::Plic(x)) => { t.add_structure(x); None }
            (Tab::Srat(t), Ent::Mem(x)) => { t.add_memory_affinity(x); None }
            (Tab::Srat(t), Ent::Gi(x)) => { t.add_generic_initiator(x); None }
            (Tab::Srat(t), Ent::RintcAff(x)) => { t.add_rintc_affinity(x); None }
            (Tab::Hmat(t), Ent::Mpd(x)) => { t.add_memory_proximity(x); None }
            (Tab::Hmat(t), Ent::Loc(x)) => { t.add_system_locality(x); None }
            (Tab::Hmat(t), Ent::Msc(x)) => { t.add_memory_side_cache(x); None }
            (Tab::Pptt(t), Ent::Proc(x)) => { let h = t.add_processor(x); let v = dbg_num(&h); hs.procs.push((h, v)); Some(v) }
            (Tab::Pptt(t), Ent::Cache(x)) => { let h = t.add_cache(x); let v = dbg_num(&h); hs.caches.push((h, v)); Some(v) }
            (Tab::Rhct(t), Ent::Isa(s)) => { let h = t.add_isa_string(s); let v = dbg_num(&h); hs.isas.push((h, v)); Some(v) }
            (Tab::Rhct(t), Ent::Cmo(x)) => { let h = t.add_cmo(x); let v = dbg_num(&h); hs.cmos.push((h, v)); Some(v) }
            (Tab::Rhct(t), Ent::Mmu(v)) => { t.add_mmu_node(mmu_scheme(v)); None }
            (Tab::Rhct(t), Ent::Hart(x)) => { t.add_hart_info(x); None }
            (Tab::Rimt(t), Ent::Iommu(x)) => { let h = t.add_iommu(x); let v = iommu_value(h); hs.iommus.push((h, v)); Some(v) }
            (Tab::Rimt(t), Ent::PcieRc(x)) => { t.add_pcie_root_complex(x); None }
            (Tab::Rimt(t), Ent::Platform(x)) => { t.add_platform(x); None }
            (Tab::Viot(t), Ent::PciRange(x)) => { t.add_pci_range(x); None }
            (Tab::Viot(t), Ent::MmioEp(x)) => { t.add_mmio_endpoint(x); None }
            (Tab::Viot(t), Ent::PciIommu(x)) => { let h = t.add_virtio_pci_iommu(x); let v = trans_value(&h); hs.trans.push((h, v)); Some(v) }
            (Tab::Viot(t), Ent::MmioIommu(x)) => { let h = t.add_virtio_mmio_iommu(x); let v = trans_value(&h); hs.trans.push((h, v)); Some(v) }
            (Tab::Cedt(t), Ent::Chbs(x)) => { t.add_host_bridge(x); None }
            (Tab::Cedt(t), Ent::Cfmws(x)) => { t.add_fixed_memory(x); None }
            (Tab::Cedt(t), Ent::Cxims(x)) => { t.add_xor_interleave_math(x); None }
            (Tab::Cedt(t), Ent::Rdpas(x)) => { t.add_port_association(x); None }
            (Tab::Hest(t), Ent::AerRp(x)) => { t.add_structure(x); None }
            (Tab::Hest(t), Ent::AerDev(x)) => { t.add_structure(x); None }
            (Tab::Hest(t), Ent::AerBr(x)) => { t.add_structure(x); None }
            (Tab::Hest(t), Ent::Ghes(x)) => { t.add_structure(x); None }
            (Tab::Hest(t), Ent::GhesV2(x)) => { t.add_structure(x); None }
            (Tab::Rqsc(t), Ent::QosCtrl(x)) => { t.add_controller(x); None }
            (Tab::Madt(t), Ent::MadtGas(x)) => { t.add_structure(x); None }
            (Tab::Madt(t), Ent::MadtUser(x)) => { t.add_structure(x); None }
            (Tab::Hest(t), Ent::HestUser(x)) => { t.add_structure(x); None }
            (Tab::Madt(t), Ent::IntM(w, v)) => { match w { 8 => t.add_structure(v as u8), 16 => t.add_structure(v as u16), 32 => t.add_structure(v as u32), _ => t.add_structure(v) }; None }
            (Tab::Madt(t), Ent::MacroM(b)) => { macro_rules! f { ($v:expr) => { t.add_structure($v) } } crate::with_mtype!(&b, f); None }
            (Tab::Hest(t), Ent::MacroH(b)) => { macro_rules! f { ($v:expr) => { t.add_structure($v) } } crate::with_mtype!(&b, f); None }
            (Tab::Hest(t), Ent::IntH(w, v)) => { match w { 8 => t.add_structure(v as u8), 16 => t.add_structure(v as u16), 32 => t.add_structure(v as u32), _ => t.add_structure(v) }; None }
            _ => panic!("entry kind does not belong to this table"),
        }
    }
}

fn observe(t: &Tab, first: usize) -> String {
    let img = ser(t.aml());
    let sum = img.iter().fold(0u8, |a, b| a.wrapping_add(*b));
    let head = &img[..first.min(img.len())];
    let body = if img.len() > first { &img[first..] } else { &[][..] };
    format!("{},{},{},{}", hex(head), img.len(), sum, fnv(body))
}

fn refs_str(hs: &mut Handles) -> String {
    let r = std::mem::take(&mut hs.resolved);
    if r.is_empty() { "-".to_string() } else { r.iter().map(|v| v.to_string()).collect::<Vec<_>>().join(".") }
}

/// case: T oemid oemtable oemrev ctor ; op ; op …
/// a user payload for `GenericErrorData::add_data`: its bytes, verbatim
struct RawAml(Vec<u8>);
impl acpi_tables::Aml for RawAml {
    fn to_aml_bytes(&self, sink: &mut dyn acpi_tables::AmlSink) {
        sink.vec(&self.0);
    }
}

pub fn run_tbl(toks: &[&str]) -> String {
    let tname = toks[0];
    let oid = arr::<6>(&unhex(toks[1]));
    let otab = arr::<8>(&unhex(toks[2]));
    let orev: u32 = n(toks[3]);
    let ctor: Vec<u64> = if toks[4] == "-" { vec![] } else { toks[4].split(',').map(|x| x.parse().unwrap()).collect() };
    let ops: Vec<Op> = toks[5..].iter().filter(|t| **t != ";").map(|t| parse_op(t)).collect();
    let first = first_offset(tname);
    let mut out: Vec<String> = Vec::new();
    let mut tab = match std::panic::catch_unwind(|| Tab::new(tname, oid, otab, orev, &ctor)) {
        Ok(t) => t,
        Err(_) => return "panic".to_string(),
    };
    let mut hs = Handles::default();
    out.push(format!("-,-,{},-", observe(&tab, first)));
    let mut dead = false;
    // a twin: a second instance of the same table type fed the same program, call by call interleaved
    // with the first — the two images must be identical (no state shared between instances, C14)
    let mut twin = Tab::new(tname, oid, otab, orev, &ctor);
    let mut hs2 = Handles::default();
    let mut twin_ok = true;
    for op in &ops {
        // built twice: once to serialise alone, once to add.  The standalone serialisation is observed
        // on its own: an entry that serialises alone although the add call refuses it is reported as
        // `serok:<hex>` (C18: a refusal that lives only in the table's add method leaves the public
        // `Aml` impl of the entry returning bytes with a wrapped length or count)
        let alone = std::panic::catch_unwind(std::panic::AssertUnwindSafe(|| {
            let e = build(op, &mut hs);
            hs.resolved.clear();
            e.ser()
        }));
        hs.resolved.clear();
        let raw = match alone {
            Ok(v) => v,
            Err(_) => { out.push("panic".to_string()); dead = true; break; }
        };
        let raw_alone = raw.clone();
        let r = std::panic::catch_unwind(std::panic::AssertUnwindSafe(|| {
            let e = build(op, &mut hs);
            let refs = refs_str(&mut hs);
            // MCFG / XSDT entries have no public type of their own: the entry "as the implementation
            // serialises it" is what the table's image grows by
            let in_table_only = matches!(e, Ent::Ecam(..) | Ent::XsdtEntry(..));
            let before = if in_table_only { ser(tab.aml()).len() } else { 0 };
            let h = tab.add(e, &mut hs);
            let raw = if in_table_only { ser(tab.aml())[before..].to_vec() } else { raw };
            (raw, h, refs)
        }));
        if r.is_ok() && twin_ok {
            let r2 = std::panic::catch_unwind(std::panic::AssertUnwindSafe(|| {
                let e = build(op, &mut hs2);
                hs2.resolved.clear();
                twin.add(e, &mut hs2)
            }));
            match (&r, r2) {
                (Ok((_, h, _)), Ok(h2)) => { if *h != h2 { twin_ok = false; } }
                _ => { twin_ok = false; }
            }
        }
        match r {
            Ok((raw, h, refs)) => {
                let hstr = h.map(|v| v.to_string()).unwrap_or_else(|| "-".to_string());
                if op.observe {
                    out.push(format!("{},{},{},{}", hex(&raw), hstr, observe(&tab, first), refs));
                } else {
                    out.push(format!("{},{},{}", hex(&raw), hstr, refs));
                }
            }
            Err(_) => {
                out.push(format!("serok:{}", hex(&raw_alone)));
                dead = true;
                break;
            }
        }
    }
    if !dead {
        if twin_ok && ser(twin.aml()) != ser(tab.aml()) { twin_ok = false; }
        out.push(format!("twin={}", if twin_ok { "same" } else { "DIFF" }));
    }
    if dead {
        out.push("img=-".to_string());
    } else {
        let img = ser(tab.aml());
        if img.len() <= 4 << 20 { out.push(format!("img={}", hex(&img))); } else { out.push("img=-".to_string()); }
    }
    out.join(" ")
}

/// stream `ent`: one entry alone: `kind/nums/blobs/subs/opts` → `ser asbytes u8sum twice`
pub fn run_ent(toks: &[&str]) -> String {
    let op = parse_op(toks[0]);
    let mut hs = Handles::default();
    let e = build(&op, &mut hs);
    let a = e.ser();
    let b = e.ser();
    let ab = e.as_bytes().map(|v| hex(&v)).unwrap_or_else(|| "~".to_string());
    let us = e.u8sum().map(|v| v.to_string()).unwrap_or_else(|| "~".to_string());
    // six sinks (C14)
    let sinks = e.with_aml(|a| crate::sinks::all_sinks(a)).unwrap_or_else(|| "~".to_string());
    // the option-free build of the same constructor arguments (C11's frame condition)
    let base = if op.o.is_empty() {
        "~".to_string()
    } else {
        let mut op0 = op.clone();
        op0.o.clear();
        match std::panic::catch_unwind(std::panic::AssertUnwindSafe(|| { let mut h0 = Handles::default(); build(&op0, &mut h0).ser() })) {
            Ok(v) => hex(&v),
            Err(_) => "~".to_string(),
        }
    };
    format!("{} {} {} {} {} {}", hex(&a), if a == b { "same" } else { "DIFF" }, ab, us, sinks, base)
}

#[allow(dead_code)]
fn _unused(_: &mut dyn AmlSink) {}
