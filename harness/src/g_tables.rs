//! generators for the `tbl` and `ent` streams.
use crate::rng::Rng;
use crate::util::*;

#[derive(Default, Clone)]
pub struct Ctx {
    pub procs: u64,
    pub caches: u64,
    pub isas: u64,
    pub cmos: u64,
    pub iommus: u64,
    pub trans: u64,
    pub has_imsic: bool,
    /// running estimate of the VIOT handle offset, to stay below 64 KiB unless asked otherwise
    pub viot_off: u64,
}

fn sc(r: &mut Rng, bits: u32) -> u64 {
    r.scalar(bits)
}

fn opts_str(v: &[String]) -> String {
    if v.is_empty() { "-".into() } else { v.join(",") }
}

fn tok(kind: &str, n: &[u64], b: &[Vec<u8>], s: &[Vec<String>], o: &[String]) -> String {
    let ns = if n.is_empty() { "-".to_string() } else { n.iter().map(|x| x.to_string()).collect::<Vec<_>>().join(",") };
    let bs = if b.is_empty() { "-".to_string() } else { b.iter().map(|x| if x.is_empty() { ".".to_string() } else { hex(x) }).collect::<Vec<_>>().join(",") };
    let ss = if s.is_empty() { "-".to_string() } else { s.iter().map(|t| if t.is_empty() { "_".to_string() } else { t.join(".") }).collect::<Vec<_>>().join(";") };
    format!("{}/{}/{}/{}/{}", kind, ns, bs, ss, opts_str(o))
}

/// a random subset/sequence of boolean options, with repetitions now and then
fn flag_opts(r: &mut Rng, names: &[&str]) -> Vec<String> {
    let mut v = Vec::new();
    let k = r.below(names.len() as u64 + 2);
    for _ in 0..k {
        v.push(r.pick(names).to_string());
    }
    v
}

fn gas_vals(r: &mut Rng) -> Vec<u64> {
    let space = *r.pick(&[0u64, 1, 2, 3, 4, 5, 6, 7, 8, 9, 10, 11, 0x7f]);
    vec![space, sc(r, 8), sc(r, 8), r.below(5), sc(r, 64)]
}

fn dotted(v: &[u64]) -> String {
    v.iter().map(|x| x.to_string()).collect::<Vec<_>>().join(".")
}

fn idmap_tuple(r: &mut Rng, ctx: &Ctx) -> Vec<String> {
    vec![sc(r, 32).to_string(), sc(r, 32).to_string(), sc(r, 32).to_string(), format!("#{}", r.below(ctx.iommus)),
         r.below(2).to_string(), r.below(2).to_string(), r.below(2).to_string()]
}

const NAMECH: &[u8] = b"ABCDEFGHIJKLMNOPQRSTUVWXYZabcdefghijklmnopqrstuvwxyz0123456789_";

/// a string argument (`&str` / `String`): mostly name characters; now and then anything a Rust string
/// may hold — an interior or trailing NUL, control characters, multi-byte UTF-8 (2-, 3- and 4-byte
/// scalars), so that byte length ≠ character count
fn ascii(r: &mut Rng, len: usize) -> Vec<u8> { text(r, len, false) }

/// (`nul`: the string may contain NUL — not for RHCT ISA strings, where an interior NUL makes the node a
/// different C string than announced whatever the crate does: DESIGN 16.6)
fn text(r: &mut Rng, len: usize, nul: bool) -> Vec<u8> {
    if len > 0 && r.below(8) == 0 {
        let pool: [&str; 10] = [if nul { "\0" } else { "-" }, "\u{1}", "\t", " ", "\u{7f}", "\u{b5}", "\u{e9}", "\u{20ac}", "\u{1f600}", "_"];
        let mut out: Vec<u8> = Vec::new();
        while out.len() < len {
            if r.below(3) == 0 { out.extend_from_slice(r.pick(&pool).as_bytes()); } else { out.push(*r.pick(NAMECH)); }
        }
        return out;
    }
    (0..len).map(|_| *r.pick(NAMECH)).collect()
}

/// one random entry of `kind`; `None` if the kind needs a handle that does not exist yet
pub fn gen_entry(r: &mut Rng, kind: &str, ctx: &mut Ctx, big: bool) -> Option<String> {
    let few = |r: &mut Rng| -> u64 { match r.below(10) { 0 => 0, 1..=6 => r.range(1, 4), 7..=8 => r.range(5, 20), _ => r.range(21, if big { 70 } else { 40 }) } };
    Some(match kind {
        "lapic" => tok(kind, &[sc(r, 8), sc(r, 8), r.below(3)], &[], &[], &[]),
        "ioapic" => tok(kind, &[sc(r, 8), sc(r, 32), sc(r, 32)], &[], &[], &[]),
        "gicc" => {
            let mut o = Vec::new();
            for _ in 0..r.below(7) {
                match r.below(4) {
                    0 => o.push(format!("pi={}.{}", sc(r, 32), r.below(2))),
                    1 => o.push(format!("mi={}.{}", sc(r, 32), r.below(2))),
                    _ => {
                        let (slot, bits) = *r.pick(&[(1u64, 32u32), (2, 32), (3, 32), (5, 64), (6, 64), (7, 64), (8, 64), (10, 64), (11, 64), (12, 8), (13, 16), (14, 16)]);
                        o.push(format!("set={}.{}", slot, sc(r, bits)));
                    }
                }
            }
            tok(kind, &[r.below(3)], &[], &[], &o)
        }
        "gicd" => tok(kind, &[sc(r, 32), sc(r, 64), r.below(5)], &[], &[], &[]),
        "gicmsi" => {
            let mut o = Vec::new();
            for _ in 0..r.below(4) {
                match r.below(3) {
                    0 => o.push(format!("set=0.{}", sc(r, 32))),
                    1 => o.push(format!("set=1.{}", sc(r, 64))),
                    _ => o.push(format!("spi={}.{}", sc(r, 16), sc(r, 16))),
                }
            }
            tok(kind, &[], &[], &[], &o)
        }
        "gicr" => tok(kind, &[sc(r, 64), sc(r, 32)], &[], &[], &[]),
        "its" => tok(kind, &[sc(r, 32), sc(r, 64)], &[], &[], &[]),
        "rintc" => tok(kind, &[r.below(3), sc(r, 64), sc(r, 32), sc(r, 32), sc(r, 64), sc(r, 32)], &[], &[], &[]),
        "imsic" => {
            if ctx.has_imsic && r.below(8) != 0 { return None; }
            tok(kind, &[sc(r, 16), sc(r, 16), sc(r, 8), sc(r, 8), sc(r, 8), sc(r, 8)], &[], &[], &[])
        }
        "aplic" => tok(kind, &[sc(r, 8), sc(r, 16), sc(r, 32), sc(r, 64), sc(r, 32), sc(r, 16)], &[r.bytes(8)], &[], &[]),
        "plic" => tok(kind, &[sc(r, 8), sc(r, 16), sc(r, 16), sc(r, 32), sc(r, 64), sc(r, 32)], &[r.bytes(8)], &[], &[]),
        "mem" => tok(kind, &[sc(r, 32), sc(r, 64), sc(r, 64)], &[], &[], &flag_opts(r, &["en", "hp", "nv"])),
        "gi" => {
            let o = flag_opts(r, &["en", "arch"]);
            if r.coin() {
                let (dev, fun) = if r.below(25) == 0 { (r.range(0, 40), r.range(0, 9)) } else { (r.below(32), r.below(8)) };
                tok(kind, &[sc(r, 32), 1, sc(r, 16), sc(r, 8), dev, fun], &[], &[], &o)
            } else {
                tok(kind, &[sc(r, 32), 0, 0, 0, 0, 0], &[r.bytes(8), r.bytes(4)], &[], &o)
            }
        }
        "rintcaff" => {
            let mut o = flag_opts(r, &["en"]);
            if r.coin() { o.push(format!("pd={}", sc(r, 32))); }
            tok(kind, &[sc(r, 32)], &[r.bytes(4)], &[], &o)
        }
        "mpd" => tok(kind, &[sc(r, 32), sc(r, 32)], &[], &[], &[]),
        "loc" => {
            let (i, t) = match r.below(6) { 0 => (1, r.range(1, 6)), 1 => (r.range(1, 6), 1), 2 => (0, r.below(3)), _ => (r.range(1, 6), r.range(1, 6)) };
            let mut o = Vec::new();
            for _ in 0..r.below(9) {
                match r.below(6) {
                    0 => o.push("nst".to_string()),
                    1 => o.push("mtsr".to_string()),
                    2 => if i > 0 { o.push(format!("seti={}.{}", r.below(i), sc(r, 32))) },
                    3 => if t > 0 { o.push(format!("sett={}.{}", r.below(t), sc(r, 32))) },
                    _ => if i > 0 && t > 0 {
                        // now and then an out-of-range index (refused)
                        let (a, b) = if r.below(40) == 0 { (r.below(i + 2), r.below(t + 2)) } else { (r.below(i), r.below(t)) };
                        o.push(format!("sete={}.{}.{}", a, b, sc(r, 16)))
                    },
                }
            }
            tok(kind, &[r.below(4), r.below(6), r.below(12), sc(r, 64), i, t], &[], &[], &o)
        }
        "msc" => {
            let o: Vec<String> = (0..few(r)).map(|_| format!("h={}", sc(r, 16))).collect();
            tok(kind, &[sc(r, 32), sc(r, 64), r.below(4), r.below(4), r.below(3), r.below(3), sc(r, 16)], &[], &[], &o)
        }
        "proc" => {
            let mut o = flag_opts(r, &["physical", "valid", "thread", "leaf", "identical"]);
            if ctx.caches > 0 {
                let k = match r.below(12) { 0 => 58, 1 => 59, 2 => if big { 60 } else { 3 }, _ => few(r).min(57) };
                for _ in 0..k { o.push(format!("cache=#{}", r.below(ctx.caches))); }
            }
            // direct writes of the public fields (flags, parent, processor id) in a third of the nodes
            if r.below(3) == 0 {
                for _ in 0..r.range(1, 3) { o.push(format!("set={}.{}", r.below(3), sc(r, 32))); }
            }
            // interleave flags, caches and field writes
            for i in (1..o.len()).rev() { let j = r.below(i as u64 + 1) as usize; o.swap(i, j); }
            let parent = if ctx.procs > 0 && r.coin() { format!("#{}", r.below(ctx.procs)) } else { "0".to_string() };
            ctx.procs += 1;
            format!("proc/{},{}/-/-/{}", parent, sc(r, 32), opts_str(&o))
        }
        "cache" => {
            let mut o = Vec::new();
            for _ in 0..r.below(9) {
                match r.below(9) {
                    0 => if ctx.caches > 0 { o.push(format!("next=#{}", r.below(ctx.caches))) },
                    1 => o.push(format!("size={}", sc(r, 32))),
                    2 => o.push(format!("sets={}", sc(r, 32))),
                    3 => o.push(format!("assoc={}", sc(r, 8))),
                    4 => o.push(format!("alloc={}", r.below(3))),
                    5 => o.push(format!("ctype={}", r.below(3))),
                    6 => o.push(format!("wp={}", r.below(2))),
                    7 => o.push(format!("line={}", sc(r, 16))),
                    _ => o.push(format!("id={}", sc(r, 32))),
                }
            }
            ctx.caches += 1;
            tok(kind, &[], &[], &[], &o)
        }
        "isa" => {
            let len = match r.below(10) { 0 => 0, 1 => 1, 2 => 2, _ => r.range(3, 60) } as usize;
            ctx.isas += 1;
            tok(kind, &[], &[ascii(r, len)], &[], &[])
        }
        "cmo" => { ctx.cmos += 1; tok(kind, &[sc(r, 8), sc(r, 8), sc(r, 8)], &[], &[], &[]) }
        "mmu" => tok(kind, &[r.below(3)], &[], &[], &[]),
        "hart" => {
            if ctx.isas == 0 { return None; }
            let mut o = Vec::new();
            if ctx.cmos > 0 { for _ in 0..few(r) { o.push(format!("cmo=#{}", r.below(ctx.cmos))); } }
            format!("hart/{},#{}/-/-/{}", sc(r, 32), r.below(ctx.isas), opts_str(&o))
        }
        "iommu" => {
            let has_pci = r.below(2);
            let (dev, fun) = if r.below(25) == 0 { (r.range(0, 40), r.range(0, 9)) } else { (r.below(32), r.below(8)) };
            let has_w = r.below(2);
            let wires: Vec<Vec<String>> = if has_w != 0 { (0..few(r)).map(|_| vec![sc(r, 32).to_string(), r.below(2).to_string(), r.below(2).to_string(), sc(r, 16).to_string()]).collect() } else { vec![] };
            ctx.iommus += 1;
            tok(kind, &[sc(r, 16), r.below(2), sc(r, 64), has_pci, sc(r, 16), sc(r, 8), dev, fun, r.below(2), sc(r, 32), has_w], &[], &wires, &[])
        }
        "pcierc" => {
            let has_m = if ctx.iommus > 0 { r.below(2) } else { 0 };
            let maps: Vec<Vec<String>> = if has_m != 0 { (0..few(r)).map(|_| idmap_tuple(r, ctx)).collect() } else { vec![] };
            tok(kind, &[sc(r, 16), sc(r, 16), r.below(2), r.below(2), has_m], &[], &maps, &[])
        }
        "platform" => {
            let has_m = if ctx.iommus > 0 { r.below(2) } else { 0 };
            let maps: Vec<Vec<String>> = if has_m != 0 { (0..few(r)).map(|_| idmap_tuple(r, ctx)).collect() } else { vec![] };
            let len = r.below(20) as usize;
            tok(kind, &[sc(r, 16), has_m], &[text(r, len, true)], &maps, &[])
        }
        "pcirange" | "mmioep" => {
            if ctx.trans == 0 { return None; }
            ctx.viot_off += 24;
            if kind == "mmioep" {
                format!("mmioep/{},{},#{}/-/-/-", sc(r, 32), sc(r, 64), r.below(ctx.trans))
            } else {
                format!("pcirange/{},{},{},{},{},{},{},{},#{}/-/-/-", sc(r, 16), sc(r, 8), r.below(32), r.below(8), sc(r, 16), sc(r, 8), r.below(32), r.below(8), r.below(ctx.trans))
            }
        }
        "pciiommu" => { ctx.trans += 1; ctx.viot_off += 16; tok(kind, &[sc(r, 16), sc(r, 8), r.below(32), r.below(8)], &[], &[], &[]) }
        "mmioiommu" => { ctx.trans += 1; ctx.viot_off += 16; tok(kind, &[sc(r, 64)], &[], &[], &[]) }
        "chbs" => tok(kind, &[sc(r, 32), r.below(2), sc(r, 64)], &[], &[], &[]),
        "cfmws" => {
            let ways = *r.pick(&[0u64, 1, 2, 3, 4, 8, 9, 10]);
            let nw = match ways { 0 => 1, 1 => 2, 2 => 4, 3 => 8, 4 => 16, 8 => 3, 9 => 6, _ => 12 };
            let mut o = flag_opts(r, &["t2", "t3", "vol", "pers", "fixed"]);
            let nt = if r.below(30) == 0 { r.below(18) } else { nw };
            for _ in 0..nt { o.push(format!("target={}", sc(r, 32))); }
            for i in (1..o.len()).rev() { let j = r.below(i as u64 + 1) as usize; if !o[i].starts_with("target") && !o[j].starts_with("target") { o.swap(i, j); } }
            tok(kind, &[sc(r, 64), sc(r, 64), r.below(2), r.below(7), ways, sc(r, 16)], &[], &[], &o)
        }
        "cxims" => {
            let k = match r.below(15) { 0 => 255, 1 => if big { 256 } else { 2 }, _ => few(r) };
            let o: Vec<String> = (0..k).map(|_| format!("map={}", sc(r, 64))).collect();
            tok(kind, &[r.below(7)], &[], &[], &o)
        }
        "rdpas" => tok(kind, &[sc(r, 16), sc(r, 8), r.below(32), r.below(8), r.below(2), sc(r, 64)], &[], &[], &[]),
        "aerrp" | "aerdev" | "aerbr" => {
            let top = match kind { "aerrp" => 11, "aerdev" => 10, _ => 13 };
            let mut o = Vec::new();
            for _ in 0..r.below(6) {
                let slot = r.range(4, top);
                o.push(format!("set={}.{}", slot, sc(r, if slot == 6 { 16 } else { 32 })));
            }
            let (dev, fun) = if r.below(25) == 0 { (r.range(0, 40), r.range(0, 9)) } else { (r.below(32), r.below(8)) };
            tok(kind, &[r.below(2), r.below(2), sc(r, 8), dev, fun], &[], &[], &o)
        }
        "ghes" | "ghesv2" => {
            let mut o = Vec::new();
            for _ in 0..r.below(7) {
                match r.below(if kind == "ghes" { 3 } else { 5 }) {
                    0 => o.push(format!("set={}.{}", r.range(2, 5), sc(r, 32))),
                    1 => o.push(format!("gas={}", dotted(&gas_vals(r)))),
                    2 => o.push(format!("notif={}", dotted(&[r.below(16), sc(r, 16), sc(r, 32), sc(r, 32), sc(r, 32), sc(r, 32), sc(r, 32), sc(r, 32)]))),
                    3 => o.push(format!("gas2={}", dotted(&gas_vals(r)))),
                    _ => o.push(format!("set={}.{}", r.range(25, 26), sc(r, 64))),
                }
            }
            tok(kind, &[sc(r, 16), r.below(2)], &[], &[], &o)
        }
        "notif" => {
            let mut o = Vec::new();
            for _ in 0..r.below(6) { let slot = r.range(2, 8); o.push(format!("set={}.{}", slot, sc(r, if slot == 2 { 16 } else { 32 }))); }
            tok(kind, &[r.below(16)], &[], &[], &o)
        }
        "ges" => tok(kind, &[*r.pick(&[0, 1, 2, 3, u32::MAX as u64]), *r.pick(&[0, 1, 2, 7]), r.below(4)], &[], &[], &[]),
        "ged" => {
            let mut bl = vec![r.bytes(16), r.bytes(20), r.bytes(8)];
            for _ in 0..*r.pick(&[0u64, 0, 1, 2]) { let k = r.range(1, 40) as usize; bl.push(r.bytes(k)); }   // add_data payloads
            tok(kind, &[sc(r, 16), r.below(4), sc(r, 16), sc(r, 8), sc(r, 8), sc(r, 32)], &bl, &[], &[])
        }
        "ecam" => tok(kind, &[sc(r, 64), sc(r, 16), sc(r, 8), sc(r, 8)], &[], &[], &[]),
        "xsdtentry" => tok(kind, &[sc(r, 64)], &[], &[], &[]),
        "qosctrl" => {
            let nres = few(r).min(30);
            let mut subs = Vec::new();
            let mut blobs = Vec::new();
            for _ in 0..nres {
                let idk = r.below(5);
                let (a, b, blob) = match idk {
                    0 => (sc(r, 32), 0, vec![]),
                    1 => (sc(r, 32), sc(r, 64), vec![]),
                    2 => (sc(r, 64), sc(r, 32), vec![]),
                    3 => (sc(r, 32), 0, vec![]),
                    _ => { let k = r.below(40) as usize; (sc(r, 8), 0, r.bytes(k)) }
                };
                // all-zero typed resources go through the types' `Default` impls in the interpreter
                let (a, b) = if idk < 4 && r.below(6) == 0 { (0, 0) } else { (a, b) };
                subs.push(vec![r.below(2).to_string(), sc(r, 16).to_string(), idk.to_string(), a.to_string(), b.to_string()]);
                blobs.push(blob);
            }
            let g = gas_vals(r);
            tok(kind, &[r.below(2), g[0], g[1], g[2], g[3], g[4], sc(r, 32), sc(r, 32), sc(r, 16)], &blobs, &subs, &[])
        }
        "gas" => tok(kind, &gas_vals(r), &[], &[], &[]),
        "wire" => tok(kind, &[sc(r, 32), r.below(2), r.below(2), sc(r, 16)], &[], &[], &[]),
        _ => panic!("gen kind {}", kind),
    })
}

pub const TABLES: [(&str, &[&str]); 12] = [
    ("xsdt", &["xsdtentry"]),
    ("mcfg", &["ecam"]),
    ("madt", &["lapic", "ioapic", "gicc", "gicd", "gicmsi", "gicr", "its", "rintc", "imsic", "aplic", "plic"]),
    ("srat", &["mem", "gi", "rintcaff"]),
    ("hmat", &["mpd", "loc", "msc"]),
    ("pptt", &["proc", "cache"]),
    ("cedt", &["chbs", "cfmws", "cxims", "rdpas"]),
    ("rhct", &["isa", "cmo", "mmu", "hart"]),
    ("rimt", &["iommu", "pcierc", "platform"]),
    ("viot", &["pciiommu", "mmioiommu", "pcirange", "mmioep"]),
    ("hest", &["aerrp", "aerdev", "aerbr", "ghes", "ghesv2"]),
    ("rqsc", &["qosctrl"]),
];

fn header(r: &mut Rng, t: &str) -> String {
    let ctor = match t {
        "madt" => if r.coin() { "0".to_string() } else { format!("1,{}", sc(r, 32)) },
        "rhct" => format!("{}", sc(r, 64)),
        _ => "-".to_string(),
    };
    format!("{} {} {} {} {}", t, hex(&r.bytes(6)), hex(&r.bytes(8)), sc(r, 32), ctor)
}

fn history(r: &mut Rng, t: &str, kinds: &[&str], len: usize, observe_all: bool, near: &[usize], only: Option<&str>) -> String {
    let mut ctx = Ctx::default();
    let mut line = header(r, t);
    let mut i = 0;
    let mut tries = 0;
    while i < len && tries < len * 20 + 100 {
        tries += 1;
        let k = match only { Some(k) => k, None => *r.pick(kinds) };
        let mut c2 = ctx.clone();
        if let Some(tok) = gen_entry(r, k, &mut c2, false) {
            if k == "imsic" { c2.has_imsic = true; }
            ctx = c2;
            i += 1;
            let obs = observe_all || near.iter().any(|b| i + 3 >= *b && i <= *b + 2) || i % 1000 == 0 || i == len;
            line.push_str(if obs { " ; " } else { " ; !" });
            line.push_str(&tok);
        } else if only.is_some() {
            // the requested kind needs a handle first: add a provider
            let prov = match k { "hart" => "isa", "pcirange" | "mmioep" => "mmioiommu", _ => break };
            let tok = gen_entry(r, prov, &mut ctx, false).unwrap();
            line.push_str(" ; ");
            line.push_str(&tok);
        }
    }
    line
}

pub fn gen_tbl(r: &mut Rng, tier: &str, emit: &mut dyn FnMut(String)) {
    let thorough = tier == "thorough";
    // empty tables
    for (t, _) in TABLES.iter() {
        let h = header(r, t);
        emit(h);
    }
    // every kind alone, a few times
    for (t, kinds) in TABLES.iter() {
        for k in kinds.iter() {
            for _ in 0..6 {
                let h = history(r, t, kinds, 1, true, &[], Some(k));
                emit(h);
            }
        }
    }
    // random mixed histories, every prefix observed
    let nrand = if thorough { 1500 } else { 90 };
    for (t, kinds) in TABLES.iter() {
        for i in 0..nrand {
            let len = match r.below(10) { 0..=4 => r.range(1, 8), 5..=8 => r.range(9, 40), _ => r.range(41, 300) } as usize;
            // CEDT: the RDPAS record is a recorded finding; most histories leave it out so that
            // everything else about the table is still decided on its own
            let ks: &[&str] = if *t == "cedt" && i % 4 != 0 { &["chbs", "cfmws", "cxims"] } else { kinds };
            let h = history(r, t, ks, len, true, &[], None);
            emit(h);
        }
    }
    // opaque entries (decided on the table level only: checksum, Length, handles): `derive(Default)`
    // values of the public entry structs, crate and caller-defined types through `add_structure<T>`,
    // mixed into histories of ordinary entries
    {
        let variants: [(&str, &[&str]); 5] = [
            ("madt", &["dflt/0", "dflt/1", "dflt/2", "dflt/3", "dflt/4", "dflt/5", "dflt/6", "dflt/7", "dflt/8", "GAS", "USER",
                       "MACRO", "MACRO", "MACRO", "MACRO"]),
            ("srat", &["dflt/10", "RA"]),
            ("hmat", &["dflt/11"]),
            ("pptt", &["dflt/12"]),
            ("hest", &["dflt/20", "dflt/21", "dflt/22", "dflt/23", "dflt/24", "NOTIF25", "NOTIF26", "HUSER", "HMACRO", "HMACRO"]),
            // (no RQSC: `RQSC::add_controller` takes the Length growth from the controller's own length field,
            //  which `new` / `add_resource` maintain and a `Default` value leaves at 0 — DESIGN 17.7)
        ];
        let reps = if thorough { 40 } else { 4 };
        for (t, vs) in variants.iter() {
            let kinds = TABLES.iter().find(|(n, _)| n == t).unwrap().1;
            for v in vs.iter() {
                for rep in 0..reps {
                    let mut ctx = Ctx::default();
                    let mut line = header(r, t);
                    let before = if rep == 0 { 0 } else { r.below(4) };
                    let after = if rep == 0 { 0 } else { r.below(4) };
                    let mut imsic_used = false;
                    let mut push_ord = |r: &mut Rng, line: &mut String, ctx: &mut Ctx, imsic_used: &mut bool| {
                        let k = *r.pick(kinds);
                        if k == "imsic" && *imsic_used { return; }
                        if let Some(tok) = gen_entry(r, k, ctx, false) {
                            if k == "imsic" { *imsic_used = true; ctx.has_imsic = true; }
                            line.push_str(" ; ");
                            line.push_str(&tok);
                        }
                    };
                    for _ in 0..before { push_ord(r, &mut line, &mut ctx, &mut imsic_used); }
                    let ncopies = if rep % 2 == 1 { 2 } else { 1 };
                    for _ in 0..ncopies {
                        let tok = match *v {
                            "GAS" => format!("dflt/40,{},{},{},{},{}/-/-/-", r.below(4), sc(r, 8), sc(r, 8), r.below(5), sc(r, 64)),
                            "USER" => format!("dflt/41,{},{},{}/-/-/-", sc(r, 8), sc(r, 16), sc(r, 64)),
                            "MACRO" => { let k = r.range(1, 16) as usize; format!("dflt/45/{}/-/-", hex(&r.bytes(k))) }
                            "HMACRO" => { let k = r.range(1, 16) as usize; format!("dflt/46/{}/-/-", hex(&r.bytes(k))) }
                            "HUSER" => format!("dflt/42,{},{},{}/-/-/-", sc(r, 8), sc(r, 16), sc(r, 64)),
                            "RA" => format!("dflt/10/-/-/{}", *r.pick(&["en", "pd=7", "pd=4096,en", "en,pd=1,pd=2"])),
                            "NOTIF25" => format!("dflt/25,{},{},{},{}/-/-/-", sc(r, 16), r.below(2), sc(r, 32), sc(r, 32)),
                            "NOTIF26" => format!("dflt/26,{},{},{},{}/-/-/-", sc(r, 16), r.below(2), sc(r, 32), sc(r, 32)),
                            "dflt/8" => { if imsic_used { continue; } imsic_used = true; "dflt/8/-/-/-".to_string() }
                            d => format!("{}/-/-/-", d),
                        };
                        line.push_str(" ; ");
                        line.push_str(&tok);
                    }
                    for _ in 0..after { push_ord(r, &mut line, &mut ctx, &mut imsic_used); }
                    emit(line);
                }
            }
        }
    }
    // a primitive integer through `add_structure<T>` (recorded finding KF-ADDSTRUCT-INT): always the last
    // call of its history, so that everything before it is still decided on its own
    for (t, var) in [("madt", 43), ("hest", 44)] {
        let kinds = TABLES.iter().find(|(n, _)| *n == t).unwrap().1;
        for (w, v) in [(8u64, 0u64), (8, 1), (8, 5), (8, 255), (16, 300), (16, 1), (32, 70000), (64, 0x1_0000_0000)] {
            let mut ctx = Ctx::default();
            let mut line = header(r, t);
            for _ in 0..r.below(3) {
                let k = *r.pick(kinds);
                if k == "imsic" { continue; }
                if let Some(tok) = gen_entry(r, k, &mut ctx, false) { line.push_str(" ; "); line.push_str(&tok); }
            }
            line.push_str(&format!(" ; dflt/{},{},{}/-/-/-", var, w, v));
            emit(line);
        }
    }
    // boundary histories: counts across 255→257 entries; Length across 256, 65536 bytes
    for (t, kinds) in TABLES.iter() {
        for k in kinds.iter() {
            if *k == "imsic" { continue; }
            let h = history(r, t, kinds, 260, false, &[1, 2, 3, 4, 5, 6, 7, 8, 255, 256, 257], Some(k));
            emit(h);
        }
        let ks: &[&str] = if *t == "cedt" { &["chbs", "cfmws", "cxims"] } else { kinds };
        let h = history(r, t, ks, 300, false, &[255, 256, 257], None);
        emit(h);
    }
    // Length across 65536 bytes: many copies of a fixed-size kind, observed around the crossing
    for (t, k, sz, first) in [("madt", "gicc", 82usize, 44usize), ("srat", "mem", 40, 48), ("hmat", "mpd", 40, 40), ("pptt", "cache", 28, 36),
                              ("mcfg", "ecam", 16, 44), ("xsdt", "xsdtentry", 8, 36), ("cedt", "chbs", 32, 36), ("hest", "ghesv2", 92, 40),
                              ("rhct", "cmo", 10, 56), ("rimt", "iommu", 0, 48), ("rqsc", "qosctrl", 0, 40)] {
        if sz == 0 { continue; }
        if !thorough && sz < 28 { continue; }
        let cross = (65536 - first) / sz;
        let kinds = TABLES.iter().find(|(n, _)| *n == t).unwrap().1;
        let h = history(r, t, kinds, cross + 6, false, &[cross, cross + 1, cross + 2], Some(k));
        emit(h);
    }
    // VIOT: the 64 KiB offset limit (refusal, C18): 4095 16-byte nodes fit after offset 48; the next is refused
    {
        let kinds = TABLES.iter().find(|(n, _)| *n == "viot").unwrap().1;
        let h = history(r, "viot", kinds, 4100, false, &[4092, 4093, 4094, 4095, 4096], Some("mmioiommu"));
        emit(h);
    }
    if thorough {
        // 65 537 entries through the small-entry tables
        for (t, k) in [("xsdt", "xsdtentry"), ("mcfg", "ecam"), ("rhct", "mmu"), ("hest", "aerdev"), ("madt", "lapic"), ("rimt", "iommu")] {
            let kinds = TABLES.iter().find(|(n, _)| *n == t).unwrap().1;
            let h = history(r, t, kinds, 65540, false, &[65535, 65536, 65537], Some(k));
            emit(h);
        }
    }
}

/// refusals inside entries (C18): oversized sub-arrays, strings and offsets, each in a short history
pub fn gen_tblbig(r: &mut Rng, tier: &str, emit: &mut dyn FnMut(String)) {
    let _ = tier;
    let mut ctx = Ctx { caches: 1, ..Default::default() };
    for nres in [57u64, 58, 59, 60, 64, 100, 300] {
        let _ = &mut ctx;
        let caches: Vec<String> = (0..nres).map(|_| "cache=#0".to_string()).collect();
        emit(format!("{} ; cache/-/-/-/- ; proc/0,7/-/-/{}", header(r, "pptt"), caches.join(",")));
    }
    for nmaps in [254u64, 255, 256, 257, 600] {
        let maps: Vec<String> = (0..nmaps).map(|i| format!("map={}", i * 3 + 1)).collect();
        emit(format!("{} ; cxims/3/-/-/{}", header(r, "cedt"), maps.join(",")));
    }
    for nh in [65535u64, 65536] {
        let hs: Vec<String> = (0..nh).map(|i| format!("h={}", i % 65536)).collect();
        emit(format!("{} ; msc/1,2,1,1,1,1,64/-/-/{}", header(r, "hmat"), hs.join(",")));
    }
    for nw in [8186u64, 8187, 8188, 8189, 9000] {
        let ws: Vec<String> = (0..nw).map(|i| format!("{}.1.0.{}", i, i % 65536)).collect();
        emit(format!("{} ; iommu/1,1,4096,0,0,0,0,0,0,0,1/-/{}/-", header(r, "rimt"), ws.join(";")));
    }
    for nm in [3275u64, 3276, 3277, 4000] {
        let ms: Vec<String> = (0..nm).map(|i| format!("{}.{}.1.#0.0.1.0", i, i)).collect();
        emit(format!("{} ; iommu/1,0,0,0,0,0,0,0,0,0,0/-/-/- ; pcierc/2,0,1,0,1/-/{}/-", header(r, "rimt"), ms.join(";")));
        emit(format!("{} ; iommu/1,0,0,0,0,0,0,0,0,0,0/-/-/- ; platform/2,1/{}/{}/-", header(r, "rimt"), hex(b"DEV0"), ms.join(";")));
    }
    for l in [65520usize, 65525, 65526, 65527, 65528, 65535, 65536, 70000] {
        emit(format!("{} ; isa/-/{}/-/-", header(r, "rhct"), hex(&vec![b'a'; l])));
        emit(format!("{} ; platform/1,0/{}/-/-", header(r, "rimt"), hex(&vec![b'n'; l.saturating_sub(10)])));
    }
    // exact boundaries of the 16-bit device length: 13 + name = 65535 / 65536, alone and with id mappings
    for l in [65521usize, 65522, 65523, 65524] {
        emit(format!("{} ; platform/1,0/{}/-/-", header(r, "rimt"), hex(&vec![b'n'; l])));
    }
    for l in [21usize, 22, 23, 24] {
        let ms: Vec<String> = (0..3275u64).map(|i| format!("{}.{}.1.#0.0.1.0", i, i)).collect();
        emit(format!("{} ; iommu/1,0,0,0,0,0,0,0,0,0,0/-/-/- ; platform/2,1/{}/{}/-", header(r, "rimt"), hex(&vec![b'n'; l]), ms.join(";")));
    }
    // every vendor-resource size in a window around the 16-bit resource / controller length limits
    for blob in (65486usize..=65510).chain(65520..=65530) {
        emit(format!("{} ; qosctrl/0,0,64,0,4,4096,1,2,3/{}/0.0.4.200.0/-", header(r, "rqsc"), hex(&vec![7u8; blob])));
    }
    for nc in [16380u64, 16381, 16382, 16383, 20000] {
        let cs: Vec<String> = (0..nc).map(|_| "cmo=#0".to_string()).collect();
        emit(format!("{} ; isa/-/{}/-/- ; cmo/1,2,3/-/-/- ; hart/5,#0/-/-/{}", header(r, "rhct"), hex(b"rv64"), cs.join(",")));
    }
    // RQSC: controller length across 65535
    for (nres, blob) in [(2339u64, 0usize), (2340, 0), (2341, 0), (1, 65520), (1, 65527), (1, 65528), (1, 65600)] {
        let subs: Vec<String> = (0..nres).map(|_| if blob == 0 { "0.0.1.5.6".to_string() } else { "0.0.4.200.0".to_string() }).collect();
        let blobs: Vec<String> = (0..nres).map(|_| if blob == 0 { ".".to_string() } else { hex(&vec![7u8; blob]) }).collect();
        emit(format!("{} ; qosctrl/0,0,64,0,4,4096,1,2,3/{}/{}/-", header(r, "rqsc"), blobs.join(","), subs.join(";")));
    }
}

/// all sequences over `names` of length ≤ maxlen
fn sequences(names: &[String], maxlen: usize) -> Vec<Vec<String>> {
    let mut out: Vec<Vec<String>> = vec![vec![]];
    let mut frontier: Vec<Vec<String>> = vec![vec![]];
    for _ in 0..maxlen {
        let mut next = Vec::new();
        for s in &frontier {
            for n in names {
                let mut t = s.clone();
                t.push(n.clone());
                next.push(t);
            }
        }
        out.extend(next.iter().cloned());
        frontier = next;
    }
    out
}

fn subsets(names: &[String]) -> Vec<Vec<String>> {
    (0..(1u32 << names.len())).map(|m| names.iter().enumerate().filter(|(i, _)| m >> i & 1 == 1).map(|(_, n)| n.clone()).collect()).collect()
}

/// every (device, function) pair — and every bus in the thorough tier — through each place the
/// crate packs a PCI bus/device/function: a finite domain, enumerated rather than sampled
fn gen_bdf_exhaustive(thorough: bool, emit: &mut dyn FnMut(String)) {
    let buses: Vec<u64> = if thorough { (0..256).collect() } else { vec![0, 0x5a, 0x80, 0xff] };
    for &bus in &buses {
        for dev in 0..32u64 {
            for fun in 0..8u64 {
                emit(format!("pciiommu/{},{},{},{}/-/-/-", 0x1234, bus, dev, fun));
                emit(format!("iommu/{},0,{},1,{},{},{},{},0,0,0/-/-/-", 7, 0x8000_0000u64, 0xbeef, bus, dev, fun));
                emit(format!("gi/{},1,{},{},{},{}/-/-/en", 3, 0xa55a, bus, dev, fun));
                emit(format!("aerdev/0,1,{},{},{}/-/-/-", bus, dev, fun));
                if bus == 0x5a || thorough {
                    emit(format!("aerrp/0,1,{},{},{}/-/-/-", bus, dev, fun));
                    emit(format!("aerbr/0,1,{},{},{}/-/-/-", bus, dev, fun));
                    emit(format!("rdpas/{},{},{},{},1,{}/-/-/-", 0x4321, bus, dev, fun, 0xfeed_0000u64));
                }
            }
        }
    }
    // just outside the domain: device 32.., function 8.. must be refused by every packer
    for (dev, fun) in [(32u64, 0u64), (31, 8), (32, 8), (33, 1), (64, 0), (255, 7), (0, 9), (0, 16), (1, 255), (255, 255)] {
        let bus = 0x5a;
        emit(format!("pciiommu/{},{},{},{}/-/-/-", 0x1234, bus, dev, fun));
        emit(format!("iommu/{},0,{},1,{},{},{},{},0,0,0/-/-/-", 7, 0x8000_0000u64, 0xbeef, bus, dev, fun));
        emit(format!("gi/{},1,{},{},{},{}/-/-/en", 3, 0xa55a, bus, dev, fun));
        emit(format!("aerdev/0,1,{},{},{}/-/-/-", bus, dev, fun));
        emit(format!("aerrp/0,1,{},{},{}/-/-/-", bus, dev, fun));
        emit(format!("aerbr/0,1,{},{},{}/-/-/-", bus, dev, fun));
        emit(format!("rdpas/{},{},{},{},1,{}/-/-/-", 0x4321, bus, dev, fun, 0xfeed_0000u64));
    }
}

pub fn gen_ent(r: &mut Rng, tier: &str, emit: &mut dyn FnMut(String)) {
    let thorough = tier == "thorough";
    gen_bdf_exhaustive(thorough, emit);
    let standalone = ["lapic", "ioapic", "gicc", "gicd", "gicmsi", "gicr", "its", "rintc", "imsic", "aplic", "plic", "mem", "gi",
        "rintcaff", "mpd", "loc", "msc", "cache", "isa", "cmo", "mmu", "iommu", "pcierc", "platform", "pciiommu", "mmioiommu",
        "chbs", "cfmws", "cxims", "rdpas", "aerrp", "aerdev", "aerbr", "ghes", "ghesv2", "notif", "ges", "ged",
        "qosctrl", "gas", "wire"];   // MCFG and XSDT entries have no public type: they exist only inside their table (tbl stream)
    let per = if thorough { 40000 } else { 1200 };
    for k in standalone {
        for _ in 0..per {
            let mut ctx = Ctx::default();
            if let Some(t) = gen_entry(r, k, &mut ctx, true) { emit(t); }
        }
    }
    // opaque entries standalone (C14 only: raw form = serialised form, byte-sum helper, six sinks, twice)
    for v in [0u64, 1, 2, 3, 4, 5, 6, 7, 8, 10, 11, 12, 20, 21, 22, 23, 24, 30] { emit(format!("dflt/{}/-/-/-", v)); }
    for (w, v) in [(8u64, 0u64), (8, 1), (8, 5), (16, 300), (32, 70000), (64, 0x1_0000_0000)] { emit(format!("dflt/43,{},{}/-/-/-", w, v)); }
    // downstream `aml_as_bytes!` types of every size 1..=16, several byte patterns each
    for k in 1..=16usize { for _ in 0..(if thorough { 50 } else { 6 }) { emit(format!("dflt/45/{}/-/-", hex(&(0..k).map(|i| (r.next() as u8) | ((i as u8) << 4) | 1).collect::<Vec<u8>>()))); } }
    for _ in 0..(if thorough { 2000 } else { 60 }) {
        emit(format!("dflt/40,{},{},{},{},{}/-/-/-", r.below(4), sc(r, 8), sc(r, 8), r.below(5), sc(r, 64)));
        emit(format!("dflt/41,{},{},{}/-/-/-", sc(r, 8), sc(r, 16), sc(r, 64)));
        emit(format!("dflt/25,{},{},{},{}/-/-/-", sc(r, 16), r.below(2), sc(r, 32), sc(r, 32)));
        emit(format!("dflt/26,{},{},{},{}/-/-/-", sc(r, 16), r.below(2), sc(r, 32), sc(r, 32)));
        emit(format!("dflt/10/-/-/{}", *r.pick(&["en", "pd=7", "pd=4096,en", "en,pd=1,pd=2"])));
    }
    // C11: option sets exhaustively — all subsets, and all orders/repetitions up to length 4 (3 for the larger sets)
    let s = |v: &[&str]| -> Vec<String> { v.iter().map(|x| x.to_string()).collect() };
    let families: Vec<(&str, String, Vec<String>)> = vec![
        ("mem", "mem/7,4096,8192/-/-/".into(), s(&["en", "hp", "nv"])),
        ("gi", "gi/3,1,2,3,4,5/-/-/".into(), s(&["en", "arch"])),
        ("rintcaff", "rintcaff/9/01020304/-/".into(), s(&["en", "pd=5", "pd=6"])),
        ("cfmws1", "cfmws/4096,8192,0,1,0,3/-/-/target=77,".into(), s(&["t2", "t3", "vol", "pers", "fixed"])),
        ("loc", "loc/2,1,3,1000,2,2/-/-/".into(), s(&["nst", "mtsr", "sete=0.1.7", "sete=1.0.9"])),
        ("gicmsi", "gicmsi/-/-/-/".into(), s(&["set=0.5", "set=1.4096", "spi=3.40", "spi=9.1"])),
        ("gicc", "gicc/1/-/-/".into(), s(&["pi=23.0", "pi=24.1", "mi=25.0", "mi=26.1", "set=2.77"])),
        ("cache", "cache/-/-/-/".into(), s(&["size=1", "sets=2", "assoc=3", "alloc=1", "ctype=2", "wp=1", "line=64", "id=9"])),
        ("proc", "proc/0,7/-/-/".into(), s(&["physical", "valid", "thread", "leaf", "identical"])),
        ("procw", "proc/0,7/-/-/".into(), s(&["physical", "leaf", "set=0.6", "set=0.0", "set=2.9", "set=1.48"])),
    ];
    for (_, prefix, names) in &families {
        for sub in subsets(names) {
            emit(format!("{}{}", prefix, if sub.is_empty() { if prefix.ends_with(',') { "t2".to_string() } else { "-".to_string() } } else { sub.join(",") }));
        }
        let maxlen = if names.len() > 5 { 3 } else { 4 };
        for seq in sequences(names, maxlen) {
            if seq.is_empty() { continue; }
            emit(format!("{}{}", prefix, seq.join(",")));
        }
    }
    // PPTT cache attribute values, all triples
    for a in 0..3 { for c in 0..3 { for w in 0..2 { emit(format!("cache/-/-/-/alloc={},ctype={},wp={}", a, c, w)); } } }
    // GICC / MADT enable states, HMAT locality types, versions: every enum value
    for st in 0..3 { emit(format!("gicc/{}/-/-/-", st)); emit(format!("lapic/1,2,{}/-/-/-", st)); emit(format!("rintc/{},1,2,3,4,5/-/-/-", st)); }
    for lt in 0..4 { for dt in 0..6 { emit(format!("loc/{},{},0,1,1,1/-/-/-", lt, dt)); } }
    for m in 0..12 { emit(format!("loc/0,0,{},1,1,1/-/-/-", m)); }
    for nt in 0..16 { emit(format!("notif/{}/-/-/-", nt)); }
    // RIMT / VIOT booleans
    for m in 0..8u32 { emit(format!("pcierc/1,2,{},{},0/-/-/-", m & 1, m >> 1 & 1)); emit(format!("iommu/1,{},4096,{},1,2,3,4,{},9,0/-/-/-", m & 1, m >> 1 & 1, m >> 2 & 1)); }
    for m in 0..4u32 { emit(format!("wire/5,{},{},6/-/-/-", m & 1, m >> 1 & 1)); }
}
