//! Correspondence harness: drives the real `acpi_tables` crate.
//!
//!   harness gen <stream> <tier> <seed>   -> case lines on stdout
//!   harness run                          -> reads case lines, prints `case | observation`
//!
//! Every random choice derives from one SplitMix64 state seeded by <seed>.
mod rng;
mod util;
mod s_cks;
mod s_pkglen;
mod s_scalars;
mod s_tables;
mod s_fixed;
mod s_sdt;
mod s_aml;
mod s_misc;
mod g_tables;
mod sinks;

use std::io::{BufRead, Write};

pub type GenFn = fn(&mut rng::Rng, &str, &mut dyn FnMut(String));
pub type RunFn = fn(&[&str]) -> String;

fn streams() -> Vec<(&'static str, GenFn, RunFn)> {
    vec![
        ("cks", s_cks::gen as GenFn, s_cks::run as RunFn),
        ("pkglen", s_pkglen::gen as GenFn, s_pkglen::run as RunFn),
        ("pkgblk", s_pkglen::gen_blk as GenFn, s_pkglen::run_blk as RunFn),
        ("int", s_scalars::gen_int as GenFn, s_scalars::run_int as RunFn),
        ("intblk", s_scalars::gen_intblk as GenFn, s_scalars::run_intblk as RunFn),
        ("path", s_scalars::gen_path as GenFn, s_scalars::run_path as RunFn),
        ("eisa", s_scalars::gen_eisa as GenFn, s_scalars::run_eisa as RunFn),
        ("eisablk", s_scalars::gen_eisablk as GenFn, s_scalars::run_eisablk as RunFn),
        ("uuid", s_scalars::gen_uuid as GenFn, s_scalars::run_uuid as RunFn),
        ("tbl", g_tables::gen_tbl as GenFn, s_tables::run_tbl as RunFn),
        ("tblbig", g_tables::gen_tblbig as GenFn, s_tables::run_tbl as RunFn),
        ("ent", g_tables::gen_ent as GenFn, s_tables::run_ent as RunFn),
        ("fix", s_fixed::gen_fix as GenFn, s_fixed::run_fix as RunFn),
        ("sdt", s_sdt::gen_sdt as GenFn, s_sdt::run_sdt as RunFn),
        ("misc", s_misc::gen_misc as GenFn, s_misc::run_misc as RunFn),
        ("aml", s_aml::gen_aml as GenFn, s_aml::run_aml as RunFn),
        ("amlalt", s_aml::gen_amlalt as GenFn, s_aml::run_aml as RunFn),
        ("amlbig", s_aml::gen_amlbig as GenFn, s_aml::run_amlbig as RunFn),
    ]
}

fn main() {
    std::panic::set_hook(Box::new(|_| {}));
    let args: Vec<String> = std::env::args().collect();
    let out = std::io::stdout();
    let mut out = std::io::BufWriter::with_capacity(1 << 20, out.lock());
    match args.get(1).map(|s| s.as_str()) {
        Some("gen") => {
            let stream = &args[2];
            let tier = &args[3];
            let seed: u64 = args[4].parse().expect("seed");
            let (name, g, _) = streams()
                .into_iter()
                .find(|(n, _, _)| n == stream)
                .expect("unknown stream");
            let mut r = rng::Rng::new(seed ^ util::fnv(name.as_bytes()));
            let mut emit = |body: String| {
                writeln!(out, "{} {}", name, body).unwrap();
            };
            g(&mut r, tier, &mut emit);
        }
        Some("run") => {
            let table = streams();
            let stdin = std::io::stdin();
            for line in stdin.lock().lines() {
                let line = line.unwrap();
                let line = line.trim();
                if line.is_empty() {
                    continue;
                }
                let toks: Vec<&str> = line.split(' ').filter(|t| !t.is_empty()).collect();
                let obs = match table.iter().find(|(n, _, _)| *n == toks[0]) {
                    Some((_, _, run)) => {
                        let t = toks[1..].to_vec();
                        match std::panic::catch_unwind(move || run(&t)) {
                            Ok(s) => s,
                            Err(_) => "panic".to_string(),
                        }
                    }
                    None => "unknown-stream".to_string(),
                };
                writeln!(out, "{} | {}", line, obs).unwrap();
            }
        }
        _ => {
            eprintln!("usage: harness gen <stream> <tier> <seed> | harness run");
            std::process::exit(2);
        }
    }
}
