//! streams `pkglen` (single lengths, hex) and `pkgblk` (block digests) through the
//! verification hook `aml::verif_create_pkg_length` (C07, C18).
use crate::rng::Rng;
use crate::util::*;
use acpi_tables::aml::verif_create_pkg_length;

const EDGES: [u64; 9] = [0, 63, 64, 4095, 4096, 1 << 20, (1 << 20) - 4, 1 << 28, (1 << 28) - 5];

pub fn gen(r: &mut Rng, tier: &str, emit: &mut dyn FnMut(String)) {
    for e in EDGES {
        for d in 0..12u64 {
            for incl in [0, 1] {
                let v = (e + d).saturating_sub(6);
                emit(format!("{} {}", v, incl));
            }
        }
    }
    for v in [1u64 << 29, 1 << 32, (1 << 32) + 63, u32::MAX as u64, 1 << 40] {
        emit(format!("{} 0", v));
        emit(format!("{} 1", v));
    }
    let n = if tier == "thorough" { 200000 } else { 20000 };
    for _ in 0..n {
        let bits = r.range(1, 29);
        let v = r.next() & ((1u64 << bits) - 1);
        emit(format!("{} {}", v, r.below(2)));
    }
}

pub fn run(toks: &[&str]) -> String {
    let len: usize = n(toks[0]);
    let incl: u8 = n(toks[1]);
    hex(&verif_create_pkg_length(len, incl != 0))
}

/// all 2^28 (+ a margin beyond) lengths in blocks of 2^16, both forms
pub fn gen_blk(_r: &mut Rng, _tier: &str, emit: &mut dyn FnMut(String)) {
    let blocks = (1u64 << 28) / 65536 + 2;
    for incl in [1, 0] {
        for b in 0..blocks {
            emit(format!("{} 65536 {}", b * 65536, incl));
        }
    }
}

pub fn run_blk(toks: &[&str]) -> String {
    let start: usize = n(toks[0]);
    let count: usize = n(toks[1]);
    let incl: u8 = n(toks[2]);
    let mut h = FNV_INIT;
    for i in start..start + count {
        match std::panic::catch_unwind(|| verif_create_pkg_length(i, incl != 0)) {
            Ok(bs) => {
                h = fnv_from(h, &bs);
                h = fnv_step(h, 0xFF);
            }
            Err(_) => {
                h = fnv_step(fnv_step(h, 0xFE), 0xFE);
            }
        }
    }
    format!("{}", h)
}
