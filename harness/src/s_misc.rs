//! stream `misc`: the remaining byte-producing constructors (C04, C14):
//!   gaddr io|mmio tsize addr   → as_bytes of sdt::GenericAddress::{io_port,mmio}_address::<T>
//!   gaspci width access dev fn reg → serialised bytes and as_bytes of gas::GAS::new_pci_config
use crate::rng::Rng;
use crate::util::*;
use acpi_tables::gas::{AccessSize, GAS};
use acpi_tables::sdt::GenericAddress;
use acpi_tables::Aml;
use zerocopy::IntoBytes;

pub fn run_misc(toks: &[&str]) -> String {
    match toks[0] {
        "gaddr" => {
            let io = toks[1] == "io";
            let ts: u64 = n(toks[2]);
            let a: u64 = n(toks[3]);
            let g = match std::panic::catch_unwind(|| match (io, ts) {
                // register types of other sizes have no Access Size code: the constructors must refuse them
                (true, 0) => GenericAddress::io_port_address::<()>(a as u16),
                (true, 3) => GenericAddress::io_port_address::<[u8; 3]>(a as u16),
                (true, 6) => GenericAddress::io_port_address::<[u16; 3]>(a as u16),
                (true, 16) => GenericAddress::io_port_address::<u128>(a as u16),
                (false, 0) => GenericAddress::mmio_address::<()>(a),
                (false, 3) => GenericAddress::mmio_address::<[u8; 3]>(a),
                (false, 5) => GenericAddress::mmio_address::<[u8; 5]>(a),
                (false, 6) => GenericAddress::mmio_address::<[u16; 3]>(a),
                (false, 12) => GenericAddress::mmio_address::<[u8; 12]>(a),
                (false, 16) => GenericAddress::mmio_address::<u128>(a),
                (false, 32) => GenericAddress::mmio_address::<[u8; 32]>(a),
                (true, 1) => GenericAddress::io_port_address::<u8>(a as u16),
                (true, 2) => GenericAddress::io_port_address::<u16>(a as u16),
                (true, 4) => GenericAddress::io_port_address::<u32>(a as u16),
                (true, _) => GenericAddress::io_port_address::<u64>(a as u16),
                (false, 1) => GenericAddress::mmio_address::<u8>(a),
                (false, 2) => GenericAddress::mmio_address::<u16>(a),
                (false, 4) => GenericAddress::mmio_address::<u32>(a),
                (false, _) => GenericAddress::mmio_address::<u64>(a),
            }) { Ok(g) => g, Err(_) => return "panic".to_string() };
            hex(g.as_bytes())
        }
        "gaspci" => {
            let acc = match n::<u64>(toks[2]) { 0 => AccessSize::Undefined, 1 => AccessSize::ByteAccess, 2 => AccessSize::WordAccess, 3 => AccessSize::DwordAccess, _ => AccessSize::QwordAccess };
            let g = GAS::new_pci_config(n(toks[1]), acc, n(toks[3]), n(toks[4]), n(toks[5]));
            let mut v = Vec::new();
            g.to_aml_bytes(&mut v);
            format!("{} {}", hex(&v), hex(g.as_bytes()))
        }
        // the static `len()` helpers against the size actually serialised (C02)
        "lens" => {
            let mut v = Vec::new();
            acpi_tables::rsdp::Rsdp::new([1, 2, 3, 4, 5, 6], 0x1000).to_aml_bytes(&mut v);
            let rsdp = v.len();
            v.clear();
            GAS::new(acpi_tables::gas::AddressSpace::SystemMemory, 8, 0, AccessSize::ByteAccess, 5).to_aml_bytes(&mut v);
            let gas = v.len();
            v.clear();
            acpi_tables::facs::FACS::new().to_aml_bytes(&mut v);
            let facs = v.len();
            v.clear();
            acpi_tables::tpm2::TpmServer1_2::new([1, 2, 3, 4, 5, 6], [1, 2, 3, 4, 5, 6, 7, 8], 1).to_aml_bytes(&mut v);
            let tcpas = v.len();
            format!("{}.{} {}.{} {}.{} {}.{}", acpi_tables::rsdp::Rsdp::len(), rsdp, GAS::len(), gas,
                acpi_tables::facs::FACS::len(), facs, acpi_tables::tpm2::TpmServer1_2::len(), tcpas)
        }
        // `Path::from(&str)` against `Path::new` (C15: interchangeable construction paths)
        "pathfrom" => {
            let st = String::from_utf8(unhex(toks[1])).unwrap();
            let a = std::panic::catch_unwind(|| { let mut v = Vec::new(); acpi_tables::aml::Path::new(&st).to_aml_bytes(&mut v); v });
            let b = std::panic::catch_unwind(|| { let mut v = Vec::new(); acpi_tables::aml::Path::from(st.as_str()).to_aml_bytes(&mut v); v });
            let f = |x: Result<Vec<u8>, _>| match x { Ok(v) => hex(&v), Err(_) => "panic".to_string() };
            format!("{} {}", f(a), f(b))
        }
        // `PackageBuilder::default()` against `PackageBuilder::new()`, k integer elements
        "pkgdefault" => {
            let k: u64 = n(toks[1]);
            let mut a = acpi_tables::aml::PackageBuilder::new();
            let mut b = acpi_tables::aml::PackageBuilder::default();
            for i in 0..k { a.add_element(&(i * 37)); b.add_element(&(i * 37)); }
            let (mut va, mut vb) = (Vec::new(), Vec::new());
            a.to_aml_bytes(&mut va);
            b.to_aml_bytes(&mut vb);
            format!("{} {}", hex(&va), hex(&vb))
        }
        _ => panic!("misc case"),
    }
}

pub fn gen_misc(r: &mut Rng, tier: &str, emit: &mut dyn FnMut(String)) {
    let k = if tier == "thorough" { 20 } else { 1 };
    for ts in [1u64, 2, 4, 8] {
        for _ in 0..200 * k {
            emit(format!("gaddr io {} {}", ts, r.scalar(16)));
            emit(format!("gaddr mmio {} {}", ts, r.scalar(64)));
        }
    }
    for ts in [0u64, 3, 6, 16] { emit(format!("gaddr io {} {}", ts, r.scalar(16))); }
    for ts in [0u64, 3, 5, 6, 12, 16, 32] { emit(format!("gaddr mmio {} {}", ts, r.scalar(64))); }
    // GAS::new_pci_config: every (device, function) pair, registers at the edges
    for dev in 0..32u64 { for fun in 0..8u64 { for reg in [0u64, 0x40, 0xfff, 0xffff] {
        emit(format!("gaspci 32 3 {} {} {}", dev, fun, reg));
    } } }
    emit("lens".to_string());
    for st in ["ABCD", "\\ABCD", "_SB_.PCI0", "\\_SB_.PCI0.A___", "A.B", "", "ABCDE", "\\", "_SB_.PCI0.LNKA.X___.Y___"] {
        emit(format!("pathfrom {}", if st.is_empty() { "-".to_string() } else { hex(st.as_bytes()) }));
    }
    for k in [0u64, 1, 2, 17, 254, 255] { emit(format!("pkgdefault {}", k)); }
    for _ in 0..2000 * k {
        emit(format!("gaspci {} {} {} {} {}", r.scalar(8), r.below(5), r.scalar(8), r.scalar(8), r.scalar(16)));
    }
}
