//! stream `misc`: the remaining byte-producing constructors (C04, C14):
//!   gaddr io|mmio tsize addr   → as_bytes of sdt::GenericAddress::{io_port,mmio}_address::<T>
//!   gaspci width access dev fn reg → serialised bytes and as_bytes of gas::GAS::new_pci_config
use crate::rng::Rng;
use crate::util::*;
use acpi_tables::gas::{AccessSize, GAS};
use acpi_tables::sdt::GenericAddress;
use acpi_tables::Aml;
use zerocopy::IntoBytes;

pub fn run_misc(toks: &[&str]) -> String {
    match toks[0] {
        "gaddr" => {
            let io = toks[1] == "io";
            let ts: u64 = n(toks[2]);
            let a: u64 = n(toks[3]);
            let g = match (io, ts) {
                (true, 1) => GenericAddress::io_port_address::<u8>(a as u16),
                (true, 2) => GenericAddress::io_port_address::<u16>(a as u16),
                (true, 4) => GenericAddress::io_port_address::<u32>(a as u16),
                (true, _) => GenericAddress::io_port_address::<u64>(a as u16),
                (false, 1) => GenericAddress::mmio_address::<u8>(a),
                (false, 2) => GenericAddress::mmio_address::<u16>(a),
                (false, 4) => GenericAddress::mmio_address::<u32>(a),
                (false, _) => GenericAddress::mmio_address::<u64>(a),
            };
            hex(g.as_bytes())
        }
        "gaspci" => {
            let acc = match n::<u64>(toks[2]) { 0 => AccessSize::Undefined, 1 => AccessSize::ByteAccess, 2 => AccessSize::WordAccess, 3 => AccessSize::DwordAccess, _ => AccessSize::QwordAccess };
            let g = GAS::new_pci_config(n(toks[1]), acc, n(toks[3]), n(toks[4]), n(toks[5]));
            let mut v = Vec::new();
            g.to_aml_bytes(&mut v);
            format!("{} {}", hex(&v), hex(g.as_bytes()))
        }
        _ => panic!("misc case"),
    }
}

pub fn gen_misc(r: &mut Rng, tier: &str, emit: &mut dyn FnMut(String)) {
    let k = if tier == "thorough" { 20 } else { 1 };
    for ts in [1u64, 2, 4, 8] {
        for _ in 0..200 * k {
            emit(format!("gaddr io {} {}", ts, r.scalar(16)));
            emit(format!("gaddr mmio {} {}", ts, r.scalar(64)));
        }
    }
    for _ in 0..2000 * k {
        emit(format!("gaspci {} {} {} {} {}", r.scalar(8), r.below(5), r.scalar(8), r.scalar(8), r.scalar(16)));
    }
}
