//! stream `sdt`: the user-defined generic table `sdt::Sdt` (C13, C01, C02, C14).
//!   case: sighex len rev oemid oemtable oemrev ; op ; op …
//!   ops : a8=v a16=v a32=v a64=v (append<T>)   as=hex (append_slice)
//!         w8=off.v w16=off.v w32=off.v w64=off.v  ws=off.hex (write at offset)
//!         kb=v kw=v kd=v kq=v kv=hex (bytes pushed through the AmlSink interface)   ck (update_checksum)
//!   obs : slice hex after `new` and after every op; a final `ser=<to_aml_bytes hex>,<len()>`; `panic:<slice hex after the refused op>`; `panic` if `new` panics
use crate::rng::Rng;
use crate::util::*;
use acpi_tables::sdt::{GenericAddress, Sdt};
use acpi_tables::AmlSink;

fn arr<const N: usize>(b: &[u8]) -> [u8; N] {
    let mut a = [0u8; N];
    a.copy_from_slice(b);
    a
}

pub fn run_sdt(toks: &[&str]) -> String {
    let sig = arr::<4>(&unhex(toks[0]));
    let len: u32 = n(toks[1]);
    let rev: u8 = n(toks[2]);
    let oid = arr::<6>(&unhex(toks[3]));
    let otab = arr::<8>(&unhex(toks[4]));
    let orev: u32 = n(toks[5]);
    let mut s = match std::panic::catch_unwind(|| Sdt::new(sig, len, rev, oid, otab, orev)) {
        Ok(s) => s,
        Err(_) => return "panic".to_string(),
    };
    let mut out = vec![hex(s.as_slice())];
    for t in toks[6..].iter().filter(|x| **x != ";") {
        let (nm, v) = match t.split_once('=') { Some((a, b)) => (a, b), None => (*t, "") };
        let r = std::panic::catch_unwind(std::panic::AssertUnwindSafe(|| {
            let two = || -> (usize, &str) { let (o, x) = v.split_once('.').unwrap(); (o.parse().unwrap(), x) };
            match nm {
                "a8" => s.append(n::<u8>(v)),
                "a16" => s.append(n::<u16>(v)),
                "a32" => s.append(n::<u32>(v)),
                "a64" => s.append(n::<u64>(v)),
                "as" => s.append_slice(&unhex(v)),
                // the generic `append<T>` / `write<T>` with types other than the four integers: byte arrays
                // of odd widths, a 128-bit integer, the 12-byte `GenericAddress`
                "at" => { let b = unhex(v); match b.len() {
                    3 => s.append::<[u8; 3]>(arr::<3>(&b)), 5 => s.append::<[u8; 5]>(arr::<5>(&b)),
                    12 => s.append(GenericAddress { address_space_id: b[0], register_bit_width: b[1], register_bit_offset: b[2], access_size: b[3], address: u64::from_le_bytes(arr::<8>(&b[4..])) }),
                    16 => s.append(u128::from_le_bytes(arr::<16>(&b))), _ => panic!("at width") } }
                "wt" => { let (o, x) = two(); let b = unhex(x); match b.len() {
                    3 => s.write::<[u8; 3]>(o, arr::<3>(&b)), 5 => s.write::<[u8; 5]>(o, arr::<5>(&b)),
                    12 => s.write(o, GenericAddress { address_space_id: b[0], register_bit_width: b[1], register_bit_offset: b[2], access_size: b[3], address: u64::from_le_bytes(arr::<8>(&b[4..])) }),
                    16 => s.write(o, u128::from_le_bytes(arr::<16>(&b))), _ => panic!("wt width") } }
                "w8" => { let (o, x) = two(); s.write_u8(o, n(x)) }
                "w16" => { let (o, x) = two(); s.write_u16(o, n(x)) }
                "w32" => { let (o, x) = two(); s.write_u32(o, n(x)) }
                "w64" => { let (o, x) = two(); s.write_u64(o, n(x)) }
                "ws" => { let (o, x) = two(); s.write_bytes(o, &unhex(x)) }
                "kb" => s.byte(n(v)),
                "kw" => s.word(n(v)),
                "kd" => s.dword(n(v)),
                "kq" => s.qword(n(v)),
                "kv" => s.vec(&unhex(v)),
                "ck" => s.update_checksum(),
                _ => panic!("sdt op"),
            }
        }));
        match r {
            Ok(()) => out.push(hex(s.as_slice())),
            Err(_) => out.push(format!("panic:{}", hex(s.as_slice()))),
        }
        // len()/is_empty() agree with the slice
        assert!(s.len() == s.as_slice().len() && !s.is_empty());
    }
    // the table as an `Aml` object: serialisation through `to_aml_bytes`, and `len()` (C13 e)
    let mut ser = Vec::new();
    acpi_tables::Aml::to_aml_bytes(&s, &mut ser);
    out.push(format!("ser={},{}", hex(&ser), s.len()));
    out.join(" ")
}

fn hdr(r: &mut Rng, len: u64) -> String {
    format!("{} {} {} {} {} {}", hex(&r.bytes(4)), len, r.scalar(8), hex(&r.bytes(6)), hex(&r.bytes(8)), r.scalar(32))
}

fn op(r: &mut Rng, cur: &mut u64, offs: &[u64]) -> String {
    let off = |r: &mut Rng, cur: u64| -> u64 {
        match r.below(4) { 0 => *r.pick(offs), 1 => cur.saturating_sub(r.below(10)), 2 => cur + r.below(3), _ => r.below(cur + 1) }
    };
    match r.below(18) {
        16 => { let k = *r.pick(&[3u64, 5, 12, 16]); *cur += k; format!("at={}", hex(&r.bytes(k as usize))) }
        17 => { let k = *r.pick(&[3u64, 5, 12, 16]); format!("wt={}.{}", off(r, *cur), hex(&r.bytes(k as usize))) }
        0 => { *cur += 1; format!("a8={}", r.scalar(8)) }
        1 => { *cur += 2; format!("a16={}", r.scalar(16)) }
        2 => { *cur += 4; format!("a32={}", r.scalar(32)) }
        3 => { *cur += 8; format!("a64={}", r.scalar(64)) }
        4 => { let k = match r.below(4) { 0 => 0, 1 => r.below(4), _ => r.below(70) }; *cur += k; format!("as={}", hex(&r.bytes(k as usize))) }
        5 => format!("w8={}.{}", off(r, *cur), r.scalar(8)),
        6 => format!("w16={}.{}", off(r, *cur), r.scalar(16)),
        7 => format!("w32={}.{}", off(r, *cur), r.scalar(32)),
        8 => format!("w64={}.{}", off(r, *cur), r.scalar(64)),
        9 => { let k = r.below(12); format!("ws={}.{}", off(r, *cur), hex(&r.bytes(k as usize))) }
        10 => { *cur += 1; format!("kb={}", r.scalar(8)) }
        11 => { *cur += 2; format!("kw={}", r.scalar(16)) }
        12 => { *cur += 4; format!("kd={}", r.scalar(32)) }
        13 => { *cur += 8; format!("kq={}", r.scalar(64)) }
        14 => { let k = r.below(20); *cur += k; format!("kv={}", hex(&r.bytes(k as usize))) }
        _ => "ck".to_string(),
    }
}

pub fn gen_sdt(r: &mut Rng, tier: &str, emit: &mut dyn FnMut(String)) {
    let thorough = tier == "thorough";
    // creation with every declared length 0..=80 (below 36: refused), and a few large ones
    for len in 0..=80u64 { emit(hdr(r, len)); }
    for len in [255u64, 256, 257, 4095, 4096, 65535, 65536, 65537] { emit(hdr(r, len)); }
    // bounded-exhaustive: all op sequences of length ≤ 2 (3 in the thorough tier) over a 40-byte table,
    // with offsets {0,3,4,8,9,10,35,last,last+1}
    let offs = [0u64, 3, 4, 8, 9, 10, 35, 39, 40];
    let mut alphabet: Vec<String> = vec!["a8=171".into(), "a32=305419896".into(), "as=-".into(), "as=0102030405".into(), "kb=9".into(), "kq=1311768467463790320".into(), "ck".into(),
        "at=a1b2c3".into(), "at=0102030405060708090a0b0c".into(), "wt=4.0102030405060708090a0b0c0d0e0f10".into(), "wt=37.a1b2c3".into()];
    for o in offs {
        alphabet.push(format!("w8={}.{}", o, 0xA5));
        alphabet.push(format!("w32={}.{}", o, 0xDEADBEEFu32));
        alphabet.push(format!("ws={}.{}", o, "1122334455667788"));
    }
    let maxlen = if thorough { 3 } else { 2 };
    let mut seqs: Vec<Vec<String>> = vec![vec![]];
    for _ in 0..maxlen {
        let mut next = Vec::new();
        for s in &seqs { for a in &alphabet { let mut t = s.clone(); t.push(a.clone()); next.push(t); } }
        for s in &next { emit(format!("{}{}", hdr(r, 40), s.iter().map(|o| format!(" ; {}", o)).collect::<String>())); }
        seqs = next;
    }
    // random long ones
    let nrand = if thorough { 20000 } else { 1500 };
    for _ in 0..nrand {
        let len = match r.below(6) { 0 => 36, 1 => r.range(36, 44), 2 => r.range(30, 36), _ => r.range(36, 300) };
        let mut cur = len;
        let mut l = hdr(r, len);
        let nops = match r.below(5) { 0 => r.range(1, 4), 4 => r.range(40, 200), _ => r.range(5, 40) };
        for _ in 0..nops { l.push_str(" ; "); l.push_str(&op(r, &mut cur, &offs)); }
        emit(l);
    }
    // large uniform payloads (slices well beyond any word / lane / block size, filled with high bytes):
    // appended as one slice, written as one slice, pushed through the sink's `vec`, then a few small ops
    for n in [1016usize, 1024, 1032, 2048, 2056, 4096] {
        for fill in [0xffu8, 0x80, 0xfe, 0x01] {
            let blob = hex(&vec![fill; n]);
            emit(format!("{} ; as={} ; a8=1 ; w8=40.7 ; kb=9", hdr(r, 36), blob));
            emit(format!("{} ; kv={} ; a32=5 ; ck", hdr(r, 40), blob));
            emit(format!("{} ; ws=36.{} ; a8=3", hdr(r, 36 + n as u64), blob));
        }
    }
    // overflowing offsets
    for o in [u64::MAX, u64::MAX - 3, 1u64 << 63, 1u64 << 32] {
        emit(format!("{} ; w32={}.1 ; ws={}.0102 ; w8={}.7", hdr(r, 40), o, o, o));
    }
}
