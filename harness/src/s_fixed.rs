//! stream `fix`: the tables that are not built by appending entries — FADT, BERT, SPCR, TCPA
//! client/server, TPM2, RSDP, FACS, SLIT (C01, C02, C04, C11, C12, C14).
//!   case: T oemid oemtable oemrev ctor ; op ; op …      op = name | name=v.v.v
//!   obs : image hex after `new` and after every op; `panic` ends the history
use crate::rng::Rng;
use crate::util::*;
use acpi_tables::gas::{AccessSize, AddressSpace, GAS};
use acpi_tables::{bert, facs, fadt, rsdp, slit, spcr, tpm2, Aml};

fn ser(a: &dyn Aml) -> Vec<u8> {
    let mut v = Vec::new();
    a.to_aml_bytes(&mut v);
    v
}

fn gas_of(v: &[u64]) -> GAS {
    let space = match v[0] {
        0 => AddressSpace::SystemMemory, 1 => AddressSpace::SystemIo, 2 => AddressSpace::PciConfigSpace,
        3 => AddressSpace::EmbeddedController, 4 => AddressSpace::Smbus, 5 => AddressSpace::SystemCmos,
        6 => AddressSpace::PciBarTarget, 7 => AddressSpace::Ipmi, 8 => AddressSpace::GeneralPursposeIo,
        9 => AddressSpace::GenericSerialBus, 10 => AddressSpace::PlatformCommunicationsChannel,
        11 => AddressSpace::PlatformRuntimeMechanism, 0x7f => AddressSpace::FunctionalFixedHardware,
        _ => panic!("gas space"),
    };
    let acc = match v[3] { 0 => AccessSize::Undefined, 1 => AccessSize::ByteAccess, 2 => AccessSize::WordAccess, 3 => AccessSize::DwordAccess, 4 => AccessSize::QwordAccess, _ => panic!("gas access") };
    GAS::new(space, v[1] as u8, v[2] as u8, acc, v[4])
}

fn arr<const N: usize>(b: &[u8]) -> [u8; N] {
    let mut a = [0u8; N];
    a.copy_from_slice(b);
    a
}

const FLAGS: [fadt::Flags; 25] = {
    use fadt::Flags::*;
    [Wbinvd, WbinvdFlush, ProcC1, PLvl2Up, PwrButton, SlpButton, FixRtc, RtcS4, TmrValExt, DckCap, ResetRegSup,
     SealedCase, Headless, CpuSwSlp, PciExpWak, UsePlatformClock, S4RtcStsValid, RemotePowerOnCapable,
     ForceApicClusterModel, ForceApicPhysicalDestinationMode, HwReducedAcpi, LowPowerS0IdleCapable,
     PersistentCpuCachesNotReported, PersistentCpuCachesNotPersistent, PersistentCpuCachesArePersistent]
};

/// write public field number `slot` (lean/Acpi/Tables/Fixed.lean lists the slots)
fn fadt_set(b: &mut fadt::FADTBuilder, slot: u64, v: u64) {
    match slot {
        0 => b.firmware_ctrl = (v as u32).into(), 1 => b.dsdt = (v as u32).into(), 3 => b.preferred_pm_profile = v as u8,
        4 => b.sci_int = (v as u16).into(), 5 => b.smi_cmd = (v as u32).into(), 6 => b.acpi_enable = v as u8,
        7 => b.acpi_disable = v as u8, 8 => b.s4bios_req = v as u8, 9 => b.pstate_cnt = v as u8,
        10 => b.pm1a_evt_blk = (v as u32).into(), 11 => b.pm1b_evt_blk = (v as u32).into(), 12 => b.pm1a_cnt_blk = (v as u32).into(),
        13 => b.pm1b_cnt_blk = (v as u32).into(), 14 => b.pm2_cnt_blk = (v as u32).into(), 15 => b.pm_tmr_blk = (v as u32).into(),
        16 => b.gpe0_blk = (v as u32).into(), 17 => b.gpe1_blk = (v as u32).into(),
        18 => b.pm1_evt_len = v as u8, 19 => b.pm1_cnt_len = v as u8, 20 => b.pm2_cnt_len = v as u8, 21 => b.pm_tmr_len = v as u8,
        22 => b.gpe0_blk_len = v as u8, 23 => b.gpe1_blk_len = v as u8, 24 => b.gpe1_base = v as u8, 25 => b.cst_cnt = v as u8,
        26 => b.p_lvl2_lat = (v as u16).into(), 27 => b.p_lvl3_lat = (v as u16).into(), 28 => b.flush_size = (v as u16).into(),
        29 => b.flush_stride = (v as u16).into(), 30 => b.duty_offset = v as u8, 31 => b.duty_width = v as u8,
        32 => b.day_alrm = v as u8, 33 => b.mon_alrm = v as u8, 34 => b.century = v as u8, 35 => b.iapc_boot_arch = (v as u16).into(),
        37 => b.flags = (v as u32).into(), 43 => b.reset_value = v as u8, 44 => b.arm_boot_arch = (v as u16).into(),
        45 => b.fadt_minor_version = v as u8, 46 => b.x_firmware_ctrl = v.into(), 47 => b.x_dsdt = v.into(),
        98 => b.hypervisor_vendor_identity = v.into(),
        _ => panic!("fadt slot"),
    }
}

fn fadt_gas(b: &mut fadt::FADTBuilder, idx: u64, g: GAS) {
    match idx {
        0 => b.reset_reg = g, 1 => b.x_pm1a_evt_blk = g, 2 => b.x_pm1b_evt_blk = g, 3 => b.x_pm1a_cnt_blk = g,
        4 => b.x_pm1b_cnt_blk = g, 5 => b.x_pm2_cnt_blk = g, 6 => b.x_pm_tmr_blk = g, 7 => b.x_gpe0_blk = g,
        8 => b.x_gpe1_blk = g, 9 => b.sleep_control_reg = g, 10 => b.sleep_status_reg = g,
        _ => panic!("fadt gas"),
    }
}

enum Fx {
    Fadt(fadt::FADTBuilder),
    Bert(bert::BERT),
    Spcr([u8; 6], [u8; 8], u32),
    Tcpac(tpm2::TpmClient1_2),
    Tcpas(tpm2::TpmServer1_2),
    Tpm2(tpm2::Tpm2),
    Rsdp(rsdp::Rsdp),
    Facs(facs::FACS),
    Slit(slit::SLIT),
}

impl Fx {
    fn image(&self) -> Vec<u8> {
        match self {
            Fx::Fadt(b) => ser(&(*b).finalize()),
            Fx::Bert(x) => ser(x),
            Fx::Spcr(a, b, c) => ser(&spcr::SPCR::sbi(*a, *b, *c)),
            Fx::Tcpac(x) => ser(x),
            Fx::Tcpas(x) => ser(x),
            Fx::Tpm2(x) => ser(x),
            Fx::Rsdp(x) => ser(x),
            Fx::Facs(x) => ser(x),
            Fx::Slit(x) => ser(x),
        }
    }
    /// the raw in-memory form (`zerocopy::IntoBytes::as_bytes`) of the tables that have one: a second
    /// public way to the image, which must agree with the serialisation after every operation (C14)
    fn raw(&self) -> Option<Vec<u8>> {
        use zerocopy::IntoBytes;
        match self {
            Fx::Bert(x) => Some(x.as_bytes().to_vec()),
            Fx::Tcpas(x) => Some(x.as_bytes().to_vec()),
            Fx::Rsdp(x) => Some(x.as_bytes().to_vec()),
            Fx::Facs(x) => Some(x.as_bytes().to_vec()),
            _ => None,
        }
    }
    /// observation after construction / after an operation
    fn obs(&self) -> String {
        let img = self.image();
        match self.raw() {
            Some(r) if r != img => format!("rawdiff:{}:{}", hex(&img), hex(&r)),
            _ => hex(&img),
        }
    }
}

fn parse_opt(t: &str) -> (String, Vec<u64>) {
    match t.split_once('=') {
        Some((n, vs)) => (n.to_string(), vs.split('.').map(|x| x.parse().unwrap()).collect()),
        None => (t.to_string(), vec![]),
    }
}

pub fn run_fix(toks: &[&str]) -> String {
    let t = toks[0];
    let oid = arr::<6>(&unhex(toks[1]));
    let otab = arr::<8>(&unhex(toks[2]));
    let orev: u32 = n(toks[3]);
    let ctor: Vec<u64> = if toks[4] == "-" { vec![] } else { toks[4].split(',').map(|x| x.parse().unwrap()).collect() };
    let c = |i: usize| ctor.get(i).copied().unwrap_or(0);
    let made = std::panic::catch_unwind(|| match t {
        "fadt" => Fx::Fadt(fadt::FADTBuilder::new(oid, otab, orev)),
        "bert" => Fx::Bert(bert::BERT::new(oid, otab, orev, c(0) as u32, c(1))),
        "spcr" => Fx::Spcr(oid, otab, orev),
        "tcpac" => Fx::Tcpac(tpm2::TpmClient1_2::new(oid, otab, orev, c(0) as u32, c(1))),
        "tcpas" => Fx::Tcpas(tpm2::TpmServer1_2::new(oid, otab, orev)),
        "tpm2" => {
            use tpm2::StartMethod::*;
            let sm = match c(2) { 1 => LegacyUse, 2 => AcpiStart, 6 => Mmio, 7 => Crb, 8 => CrbAndAcpiStart, 11 => CrbAndSmcHvc, 12 => I2cFifo, _ => panic!("start method") };
            Fx::Tpm2(tpm2::Tpm2::new(oid, otab, orev, if c(0) == 0 { tpm2::PlatformClass::Client } else { tpm2::PlatformClass::Server }, c(1), sm))
        }
        "rsdp" => Fx::Rsdp(rsdp::Rsdp::new(oid, c(0))),
        "facs" => Fx::Facs(facs::FACS::new()),
        "slit" => Fx::Slit(slit::SLIT::new(oid, otab, orev, c(0) as u32)),
        _ => panic!("table"),
    });
    let mut fx = match made {
        Ok(f) => f,
        Err(_) => return "panic".to_string(),
    };
    let mut out = vec![fx.obs()];
    for tok in toks[5..].iter().filter(|x| **x != ";") {
        let (nm, v) = parse_opt(tok);
        let r = std::panic::catch_unwind(std::panic::AssertUnwindSafe(|| {
            fx = match std::mem::replace(&mut fx, Fx::Facs(facs::FACS::new())) {
                Fx::Fadt(mut b) => {
                    b = match nm.as_str() {
                        "dsdt32" => b.dsdt_32(v[0] as u32),
                        "dsdt64" => b.dsdt_64(v[0]),
                        "fc32" => b.firmware_ctrl_32(v[0] as u32),
                        "fc64" => b.firmware_ctrl_64(v[0]),
                        "acpien" => b.acpi_enable(),
                        "acpidis" => b.acpi_disable(),
                        "flag" => b.flag(FLAGS[v[0] as usize]),
                        "gpe" => b.gpe_info(v[0] as u32, v[1] as u32, v[2] as u8, v[3] as u8, v[4] as u8),
                        "profile" => {
                            use fadt::PmProfile::*;
                            b.preferred_pm_profile([Unspecified, Desktop, Mobile, Workstation, EnterpriseServer, SohoServer, AppliancePc, PerformanceServer, Tablet][v[0] as usize])
                        }
                        "set" => { fadt_set(&mut b, v[0], v[1]); b }
                        // the crate-managed header field is public too: a stale value must not reach the image
                        "stalecks" => { b.checksum = v[0] as u8; b }
                        "gas" => { fadt_gas(&mut b, v[0], gas_of(&v[1..])); b }
                        _ => panic!("fadt op"),
                    };
                    Fx::Fadt(b)
                }
                Fx::Tcpas(s) => Fx::Tcpas(match nm.as_str() {
                    "logarea" => s.log_area(v[0], v[1]),
                    "activelow" => s.active_low(),
                    "edge" => s.edge_triggered(),
                    "scigpe" => s.sci_gpe(v[0] as u8),
                    "gsi" => s.gsi(v[0] as u32),
                    "pnp" => s.bus_is_pnp(),
                    "sbdf" => s.pci_sbdf(v[0] as u8, v[1] as u8, v[2] as u8, v[3] as u8),
                    "base" => s.base_addr(gas_of(&v)),
                    "config" => s.config_addr(gas_of(&v)),
                    _ => panic!("tcpas op"),
                }),
                Fx::Tpm2(mut x) => { assert!(nm == "logarea"); x.set_log_area(v[0] as u32, v[1]); Fx::Tpm2(x) }
                Fx::Slit(mut x) => { assert!(nm == "dist"); x.set_distance(v[0] as usize, v[1] as usize, v[2] as u8); Fx::Slit(x) }
                _ => panic!("no ops on this table"),
            };
        }));
        match r {
            Ok(()) => out.push(fx.obs()),
            Err(_) => { out.push("panic".to_string()); break; }
        }
    }
    out.join(" ")
}

fn hdr(r: &mut Rng, t: &str, ctor: &str) -> String {
    format!("{} {} {} {} {}", t, hex(&r.bytes(6)), hex(&r.bytes(8)), r.scalar(32), ctor)
}

fn gasv(r: &mut Rng) -> String {
    let space = *r.pick(&[0u64, 1, 2, 3, 4, 5, 6, 7, 8, 9, 10, 11, 0x7f]);
    format!("{}.{}.{}.{}.{}", space, r.scalar(8), r.scalar(8), r.below(5), r.scalar(64))
}

const FADT_SLOTS: [(u64, u32); 45] = [(0, 32), (1, 32), (3, 8), (4, 16), (5, 32), (6, 8), (7, 8), (8, 8), (9, 8), (10, 32), (11, 32), (12, 32),
    (13, 32), (14, 32), (15, 32), (16, 32), (17, 32), (18, 8), (19, 8), (20, 8), (21, 8), (22, 8), (23, 8), (24, 8), (25, 8), (26, 16),
    (27, 16), (28, 16), (29, 16), (30, 8), (31, 8), (32, 8), (33, 8), (34, 8), (35, 16), (37, 32), (43, 8), (44, 16), (45, 8), (46, 64),
    (47, 64), (98, 64), (16, 32), (37, 32), (5, 32)];

fn fadt_op(r: &mut Rng) -> String {
    match r.below(13) {
        12 => format!("stalecks={}", r.scalar(8)),
        0 => format!("dsdt32={}", r.scalar(32)),
        1 => format!("dsdt64={}", r.scalar(64)),
        2 => format!("fc32={}", r.scalar(32)),
        3 => format!("fc64={}", r.scalar(64)),
        4 => "acpien".into(),
        5 => "acpidis".into(),
        6 | 7 => format!("flag={}", r.below(25)),
        8 => format!("gpe={}.{}.{}.{}.{}", r.scalar(32), r.scalar(32), r.scalar(8), r.scalar(8), r.scalar(8)),
        9 => format!("profile={}", r.below(9)),
        10 => { let (s, b) = *r.pick(&FADT_SLOTS); format!("set={}.{}", s, r.scalar(b)) }
        _ => format!("gas={}.{}", r.below(11), gasv(r)),
    }
}

fn tcpas_op(r: &mut Rng) -> String {
    match r.below(9) {
        0 => format!("logarea={}.{}", r.scalar(64), r.scalar(64)),
        1 => "activelow".into(),
        2 => "edge".into(),
        3 => format!("scigpe={}", r.scalar(8)),
        4 => format!("gsi={}", r.scalar(32)),
        5 => "pnp".into(),
        6 => { let (d, f) = if r.below(20) == 0 { (r.range(0, 40), r.range(0, 9)) } else { (r.below(32), r.below(8)) }; format!("sbdf={}.{}.{}.{}", r.scalar(8), r.scalar(8), d, f) }
        7 => format!("base={}", gasv(r)),
        _ => format!("config={}", gasv(r)),
    }
}

pub fn gen_fix(r: &mut Rng, tier: &str, emit: &mut dyn FnMut(String)) {
    let thorough = tier == "thorough";
    let k = if thorough { 20 } else { 1 };
    // constructor-only tables over random arguments
    for _ in 0..300 * k {
        let c = format!("{},{}", r.scalar(32), r.scalar(64));
        emit(hdr(r, "bert", &c));
        let c = format!("{},{}", r.scalar(32), r.scalar(64));
        emit(hdr(r, "tcpac", &c));
        let c = format!("{}", r.scalar(64));
        emit(hdr(r, "rsdp", &c));
        emit(hdr(r, "spcr", "-"));
        let sm = *r.pick(&[1u64, 2, 6, 7, 8, 11, 12]);
        let c = format!("{},{},{}", r.below(2), r.scalar(64), sm);
        let mut l = hdr(r, "tpm2", &c);
        for _ in 0..r.below(3) { l.push_str(&format!(" ; logarea={}.{}", r.scalar(32), r.scalar(64))); }
        emit(l);
    }
    emit(hdr(r, "facs", "-"));
    // FADT: empty, each flag alone, all subsets of a few, all orders ≤ 3 of the exclusive setters, random programs
    emit(hdr(r, "fadt", "-"));
    for f in 0..25 { emit(format!("{} ; flag={}", hdr(r, "fadt", "-"), f)); }
    for p in 0..9 { emit(format!("{} ; profile={}", hdr(r, "fadt", "-"), p)); }
    for c in [0u64, 1, 0x5a, 0x80, 0xff] { emit(format!("{} ; stalecks={}", hdr(r, "fadt", "-"), c)); emit(format!("{} ; stalecks={} ; set=4.9 ; flag=3", hdr(r, "fadt", "-"), c)); }
    // every ordered pair of flags (an option must not disturb a bit set earlier or later), ordered
    // triples over the multi-bit neighbourhood (bits 20..23), a direct write of the flags field
    // before/after a flag call, and random flag-only programs
    for a in 0..25 { for b in 0..25 { emit(format!("{} ; flag={} ; flag={}", hdr(r, "fadt", "-"), a, b)); } }
    for a in 19..25 { for b in 19..25 { for c in 19..25 { emit(format!("{} ; flag={} ; flag={} ; flag={}", hdr(r, "fadt", "-"), a, b, c)); } } }
    for a in 0..25 {
        emit(format!("{} ; set=37.{} ; flag={}", hdr(r, "fadt", "-"), 0xA5A5_5A5Au32, a));
        emit(format!("{} ; flag={} ; set=37.{}", hdr(r, "fadt", "-"), a, 0x0F0F_F0F0u32));
    }
    for _ in 0..200 * k {
        let mut l = hdr(r, "fadt", "-");
        for _ in 0..r.range(2, 10) { l.push_str(&format!(" ; flag={}", r.below(25))); }
        emit(l);
    }
    let excl = ["dsdt32=305419896", "dsdt64=1311768467463790320", "fc32=2271560481", "fc64=9833440827789222417", "acpien", "acpidis", "profile=4", "profile=8"];
    for a in excl { for b in excl { emit(format!("{} ; {} ; {}", hdr(r, "fadt", "-"), a, b)); for c in excl { emit(format!("{} ; {} ; {} ; {}", hdr(r, "fadt", "-"), a, b, c)); } } }
    for _ in 0..400 * k {
        let mut l = hdr(r, "fadt", "-");
        for _ in 0..r.range(1, 14) { l.push_str(" ; "); l.push_str(&fadt_op(r)); }
        emit(l);
    }
    // TCPA server: all subsets and all orders ≤ 3 of its flag-setting builders, random programs
    emit(hdr(r, "tcpas", "-"));
    let tf = ["activelow", "edge", "scigpe=7", "gsi=41", "pnp", "sbdf=1.2.3.4", "config=1.8.0.1.3320"];
    for m in 0..(1u32 << tf.len()) {
        let ops: Vec<&str> = tf.iter().enumerate().filter(|(i, _)| m >> i & 1 == 1).map(|(_, s)| *s).collect();
        emit(format!("{}{}", hdr(r, "tcpas", "-"), ops.iter().map(|o| format!(" ; {}", o)).collect::<String>()));
    }
    for a in tf { for b in tf { for c in tf { emit(format!("{} ; {} ; {} ; {}", hdr(r, "tcpas", "-"), a, b, c)); } } }
    // pci_sbdf: every (device, function) pair, and just outside the domain (must be refused)
    for d in 0..32u64 { for f in 0..8u64 { emit(format!("{} ; sbdf=9.{}.{}.{}", hdr(r, "tcpas", "-"), 0x5a, d, f)); } }
    for (d, f) in [(32u64, 0u64), (31, 8), (32, 8), (33, 1), (64, 0), (255, 7), (0, 9), (0, 16), (1, 255), (255, 255)] {
        emit(format!("{} ; sbdf=9.{}.{}.{}", hdr(r, "tcpas", "-"), 0x5a, d, f));
    }
    for _ in 0..300 * k {
        let mut l = hdr(r, "tcpas", "-");
        for _ in 0..r.range(1, 12) { l.push_str(" ; "); l.push_str(&tcpas_op(r)); }
        emit(l);
    }
    // SLIT: small shapes with all op sequences ≤ 3 over all cell pairs and 2 values (exhaustive), larger random
    for nloc in 0..=3u64 {
        emit(hdr(r, "slit", &nloc.to_string()));
        let mut ops = Vec::new();
        for a in 0..nloc { for b in 0..nloc { for v in [17u64, 254] { ops.push(format!("dist={}.{}.{}", a, b, v)); } } }
        let lim = if nloc <= 2 { 3 } else { 2 };
        let mut seqs: Vec<Vec<String>> = vec![vec![]];
        for _ in 0..lim {
            let mut next = Vec::new();
            for s in &seqs { if s.len() + 1 > lim { continue; } for o in &ops { let mut t = s.clone(); t.push(o.clone()); next.push(t); } }
            for s in &next { emit(format!("{}{}", hdr(r, "slit", &nloc.to_string()), s.iter().map(|o| format!(" ; {}", o)).collect::<String>())); }
            seqs = next;
        }
    }
    for _ in 0..150 * k {
        let nloc = match r.below(8) { 0 => r.range(0, 2), 1..=5 => r.range(3, 12), _ => r.range(13, 64) };
        let mut l = hdr(r, "slit", &nloc.to_string());
        for _ in 0..r.below(if thorough { 200 } else { 40 }) {
            let (a, b) = if nloc == 0 || r.below(30) == 0 { (r.below(nloc + 2), r.below(nloc + 2)) } else if r.below(5) == 0 { let a = r.below(nloc); (a, a) } else { (r.below(nloc), r.below(nloc)) };
            l.push_str(&format!(" ; dist={}.{}.{}", a, b, r.scalar(8)));
        }
        emit(l);
    }
    // SLIT refusal (C18): localities whose square (+44) does not fit 32 bits
    for nloc in [65536u64, 65537, 70000, 4294967295] { emit(hdr(r, "slitbig", &nloc.to_string()).replacen("slitbig", "slit", 1)); }
}
