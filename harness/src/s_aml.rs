//! stream `aml`: term trees built from the crate's AML constructors (C06, C10, C15, C14, C18).
//!   case : <env> <prefix-notation term>        env = - | hexpath:arity,hexpath:arity…
//!   term : op ints… blobs(hex)… [count] kids…   (signature table below, shared with lean/Drv/Aml.lean)
//!   obs  : <hex|panic> <alt hex|panic|~> <sinks ok|DIFF:…|~>
use crate::rng::Rng;
use crate::util::*;
use acpi_tables::aml::*;
use acpi_tables::gas::{AccessSize, AddressSpace as GasSpace, GAS};
use acpi_tables::Aml;

/// (ints, blobs, kids): kids = Some(n) fixed, None counted
pub fn sig(op: &str) -> (usize, usize, Option<usize>) {
    match op {
        "zero" | "one" | "ones" => (0, 0, Some(0)),
        "u8" | "u16" | "u32" | "u64" | "usize" | "arg" | "local" | "freserved" => (1, 0, Some(0)),
        "str" | "sstr" | "path" | "eisa" | "uuid" | "buf" | "fieldname" | "release" => (0, 1, Some(0)),
        "bufterm" | "varpkg" | "objtype" | "sizeof" | "ret" | "deref" => (0, 0, Some(1)),
        "name" => (0, 1, Some(1)),
        "pkg" | "pkgb" | "rt" | "if" | "while" | "else" => (0, 0, None),
        "mem32" | "asbus" => (3, 0, Some(0)),
        "io" => (4, 0, Some(0)),
        "irq" | "reg" | "asio" => (5, 0, Some(0)),
        "asmem" => (7, 0, Some(0)),
        "device" | "scope" | "scoperaw" | "call" => (0, 1, None),
        "method" | "powerres" => (2, 1, None),
        "field" => (3, 1, None),
        "fnamed" | "mutex" | "acquire" => (1, 1, Some(0)),
        "opregion" => (1, 1, Some(2)),
        "eq" | "lt" | "gt" | "ne" | "ge" | "le" | "store" | "notify" | "tobuffer" | "tointeger" => (0, 0, Some(2)),
        "add" | "concat" | "subtract" | "multiply" | "shl" | "shr" | "and" | "nand" | "or" | "nor" | "xor" | "concatres"
        | "mod" | "index" | "tostring" | "createdw" | "createqw" => (0, 0, Some(3)),
        "createfield" | "mid" => (0, 0, Some(4)),
        _ => panic!("unknown aml op {}", op),
    }
}

fn leak<T: Aml + 'static>(x: T) -> &'static dyn Aml {
    Box::leak(Box::new(x))
}

fn s(b: &[u8]) -> String {
    String::from_utf8(b.to_vec()).expect("utf8")
}

struct P<'a> {
    t: &'a [&'a str],
    i: usize,
}

impl<'a> P<'a> {
    fn next(&mut self) -> &'a str {
        let x = self.t[self.i];
        self.i += 1;
        x
    }
    fn int(&mut self) -> u64 {
        self.next().parse().expect("int")
    }
    fn blob(&mut self) -> Vec<u8> {
        unhex(self.next())
    }
}

fn gas_of(v: &[u64]) -> GAS {
    let space = match v[0] {
        0 => GasSpace::SystemMemory, 1 => GasSpace::SystemIo, 2 => GasSpace::PciConfigSpace, 3 => GasSpace::EmbeddedController,
        4 => GasSpace::Smbus, 5 => GasSpace::SystemCmos, 6 => GasSpace::PciBarTarget, 7 => GasSpace::Ipmi,
        8 => GasSpace::GeneralPursposeIo, 9 => GasSpace::GenericSerialBus, 10 => GasSpace::PlatformCommunicationsChannel,
        11 => GasSpace::PlatformRuntimeMechanism, 0x7f => GasSpace::FunctionalFixedHardware, _ => panic!("gas space"),
    };
    let acc = match v[3] { 0 => AccessSize::Undefined, 1 => AccessSize::ByteAccess, 2 => AccessSize::WordAccess, 3 => AccessSize::DwordAccess, 4 => AccessSize::QwordAccess, _ => panic!("gas access") };
    GAS::new(space, v[1] as u8, v[2] as u8, acc, v[4])
}

fn cacheable(v: u64) -> AddressSpaceCacheable {
    match v { 0 => AddressSpaceCacheable::NotCacheable, 1 => AddressSpaceCacheable::Cacheable, 2 => AddressSpaceCacheable::WriteCombining, _ => AddressSpaceCacheable::PreFetchable }
}

/// `alt`: build the alternative construction path of the ROOT node where one exists
fn build(p: &mut P, alt: bool) -> &'static dyn Aml {
    let op = p.next();
    let (ni, nb, nk) = sig(op);
    let ints: Vec<u64> = (0..ni).map(|_| p.int()).collect();
    let blobs: Vec<Vec<u8>> = (0..nb).map(|_| p.blob()).collect();
    // field entries are not Aml objects
    if op == "field" {
        let cnt = p.int() as usize;
        let mut entries = Vec::new();
        for _ in 0..cnt {
            let e = p.next();
            match e {
                "fnamed" => { let bits = p.int() as usize; let nm = p.blob(); let mut a = [0u8; 4]; a.copy_from_slice(&nm); entries.push(FieldEntry::Named(a, bits)); }
                "freserved" => { let bits = p.int() as usize; entries.push(FieldEntry::Reserved(bits)); }
                _ => panic!("field entry"),
            }
        }
        let acc = [FieldAccessType::Any, FieldAccessType::Byte, FieldAccessType::Word, FieldAccessType::DWord, FieldAccessType::QWord, FieldAccessType::Buffer][ints[0] as usize];
        let lock = if ints[1] == 0 { FieldLockRule::NoLock } else { FieldLockRule::Lock };
        let upd = [FieldUpdateRule::Preserve, FieldUpdateRule::WriteAsOnes, FieldUpdateRule::WriteAsZeroes][ints[2] as usize];
        return leak(Field::new(Path::new(&s(&blobs[0])), acc, lock, upd, entries));
    }
    let cnt = match nk { Some(n) => n, None => p.int() as usize };
    // children are `&dyn Aml`: when two siblings are the same term, the *same object* is handed in twice
    // (one child referenced twice from one parent), as a caller who names a value once would do
    let mut spans: Vec<(usize, usize)> = Vec::new();
    let mut kids: Vec<&'static dyn Aml> = Vec::new();
    for _ in 0..cnt {
        let a = p.i;
        let k = build(p, false);
        let b = p.i;
        match spans.iter().position(|(x, y)| p.t[*x..*y] == p.t[a..b]) {
            Some(j) => kids.push(kids[j]),
            None => kids.push(k),
        }
        spans.push((a, b));
    }
    let path = |i: usize| Path::new(&s(&blobs[i]));
    match op {
        "zero" => leak(Zero {}),
        "one" => leak(One {}),
        "ones" => leak(Ones {}),
        "u8" => leak(ints[0] as u8),
        "u16" => leak(ints[0] as u16),
        "u32" => leak(ints[0] as u32),
        "u64" => if alt { leak(ints[0] as usize) } else { leak(ints[0]) },
        "usize" => if alt { leak(ints[0]) } else { leak(ints[0] as usize) },
        "str" => if alt { let st: &'static str = Box::leak(s(&blobs[0]).into_boxed_str()); leak(st) } else { leak(s(&blobs[0])) },
        "sstr" => { let st: &'static str = Box::leak(s(&blobs[0]).into_boxed_str()); if alt { leak(s(&blobs[0])) } else { leak(st) } }
        "path" => leak(path(0)),
        "eisa" => leak(EISAName::new(&s(&blobs[0]))),
        "uuid" => leak(Uuid::new(&s(&blobs[0]))),
        "buf" => leak(BufferData::new(blobs[0].clone())),
        "bufterm" => leak(BufferTerm::new(kids[0])),
        "arg" => leak(Arg(ints[0] as u8)),
        "local" => leak(Local(ints[0] as u8)),
        "name" => leak(Name::new(path(0), kids[0])),
        "fieldname" => leak(Name::new_field_name(&s(&blobs[0]))),
        "pkg" | "pkgb" => {
            if (op == "pkg") != alt {
                leak(Package::new(kids))
            } else {
                // both public ways of making an empty builder are crate constructors
                let mut b = if kids.len() % 2 == 1 { PackageBuilder::default() } else { PackageBuilder::new() };
                // a builder may be looked at while it is being filled (serialised, summed, nested into another
                // builder) and extended afterwards: every third builder is serialised after each add
                let peek = kids.len() % 3 == 2;
                if peek { let mut scratch = Vec::new(); b.to_aml_bytes(&mut scratch); }
                for k in &kids {
                    b.add_element(*k);
                    if peek { let mut scratch = Vec::new(); b.to_aml_bytes(&mut scratch); let _ = acpi_tables::u8sum(&b); }
                }
                leak(b)
            }
        }
        "varpkg" => leak(VarPackageTerm::new(kids[0])),
        "rt" => leak(ResourceTemplate::new(kids)),
        "mem32" => leak(Memory32Fixed::new(ints[0] != 0, ints[1] as u32, ints[2] as u32)),
        "io" => leak(IO::new(ints[0] as u16, ints[1] as u16, ints[2] as u8, ints[3] as u8)),
        "irq" => leak(Interrupt::new(ints[0] != 0, ints[1] != 0, ints[2] != 0, ints[3] != 0, ints[4] as u32)),
        "reg" => leak(Register::new(gas_of(&ints))),
        "asmem" => {
            let tr = |v: u64| if ints[5] != 0 { Some(v) } else { None };
            match ints[0] {
                16 => leak(AddressSpace::<u16>::new_memory(cacheable(ints[1]), ints[2] != 0, ints[3] as u16, ints[4] as u16, tr(ints[6]).map(|v| v as u16))),
                32 => leak(AddressSpace::<u32>::new_memory(cacheable(ints[1]), ints[2] != 0, ints[3] as u32, ints[4] as u32, tr(ints[6]).map(|v| v as u32))),
                _ => leak(AddressSpace::<u64>::new_memory(cacheable(ints[1]), ints[2] != 0, ints[3], ints[4], tr(ints[6]))),
            }
        }
        "asio" => {
            let tr = |v: u64| if ints[3] != 0 { Some(v) } else { None };
            match ints[0] {
                16 => leak(AddressSpace::<u16>::new_io(ints[1] as u16, ints[2] as u16, tr(ints[4]).map(|v| v as u16))),
                32 => leak(AddressSpace::<u32>::new_io(ints[1] as u32, ints[2] as u32, tr(ints[4]).map(|v| v as u32))),
                _ => leak(AddressSpace::<u64>::new_io(ints[1], ints[2], tr(ints[4]))),
            }
        }
        "asbus" => match ints[0] {
            16 => leak(AddressSpace::<u16>::new_bus_number(ints[1] as u16, ints[2] as u16)),
            32 => leak(AddressSpace::<u32>::new_bus_number(ints[1] as u32, ints[2] as u32)),
            _ => leak(AddressSpace::<u64>::new_bus_number(ints[1], ints[2])),
        },
        "device" => leak(Device::new(path(0), kids)),
        "scope" | "scoperaw" => {
            if (op == "scope") != alt {
                leak(Scope::new(path(0), kids))
            } else {
                let mut bytes = Vec::new();
                for k in &kids { k.to_aml_bytes(&mut bytes); }
                leak(RawBytes(Scope::raw(path(0), bytes)))
            }
        }
        "method" => leak(Method::new(path(0), ints[0] as u8, ints[1] != 0, kids)),
        "opregion" => {
            use OpRegionSpace::*;
            let sp = [SystemMemory, SystemIO, PCIConfig, EmbeddedControl, SMBus, SystemCMOS, PciBarTarget, IPMI, GeneralPurposeIO, GenericSerialBus][ints[0] as usize];
            leak(OpRegion::new(path(0), sp, kids[0], kids[1]))
        }
        "if" => leak(If::new(kids[0], kids[1..].to_vec())),
        "while" => leak(While::new(kids[0], kids[1..].to_vec())),
        "else" => leak(Else::new(kids)),
        "powerres" => leak(PowerResource::new(path(0), ints[0] as u8, ints[1] as u16, kids)),
        "eq" => leak(Equal::new(kids[0], kids[1])),
        "lt" => leak(LessThan::new(kids[0], kids[1])),
        "gt" => leak(GreaterThan::new(kids[0], kids[1])),
        "ne" => leak(NotEqual::new(kids[0], kids[1])),
        "ge" => leak(GreaterEqual::new(kids[0], kids[1])),
        "le" => leak(LessEqual::new(kids[0], kids[1])),
        "store" => leak(Store::new(kids[0], kids[1])),
        "mutex" => leak(Mutex::new(path(0), ints[0] as u8)),
        "acquire" => leak(Acquire::new(path(0), ints[0] as u16)),
        "release" => leak(Release::new(path(0))),
        "notify" => leak(Notify::new(kids[0], kids[1])),
        "objtype" => leak(ObjectType::new(kids[0])),
        "sizeof" => leak(SizeOf::new(kids[0])),
        "ret" => leak(Return::new(kids[0])),
        "deref" => leak(DeRefOf::new(kids[0])),
        "add" => leak(Add::new(kids[0], kids[1], kids[2])),
        "concat" => leak(Concat::new(kids[0], kids[1], kids[2])),
        "subtract" => leak(Subtract::new(kids[0], kids[1], kids[2])),
        "multiply" => leak(Multiply::new(kids[0], kids[1], kids[2])),
        "shl" => leak(ShiftLeft::new(kids[0], kids[1], kids[2])),
        "shr" => leak(ShiftRight::new(kids[0], kids[1], kids[2])),
        "and" => leak(And::new(kids[0], kids[1], kids[2])),
        "nand" => leak(Nand::new(kids[0], kids[1], kids[2])),
        "or" => leak(Or::new(kids[0], kids[1], kids[2])),
        "nor" => leak(Nor::new(kids[0], kids[1], kids[2])),
        "xor" => leak(Xor::new(kids[0], kids[1], kids[2])),
        "concatres" => leak(ConcatRes::new(kids[0], kids[1], kids[2])),
        "mod" => leak(Mod::new(kids[0], kids[1], kids[2])),
        "index" => leak(Index::new(kids[0], kids[1], kids[2])),
        "tostring" => leak(ToString::new(kids[0], kids[1], kids[2])),
        "createdw" => leak(CreateDWordField::new(kids[0], kids[1], kids[2])),
        "createqw" => leak(CreateQWordField::new(kids[0], kids[1], kids[2])),
        "tobuffer" => leak(ToBuffer::new(kids[0], kids[1])),
        "tointeger" => leak(ToInteger::new(kids[0], kids[1])),
        "createfield" => leak(CreateField::new(kids[0], kids[1], kids[2], kids[3])),
        "mid" => leak(Mid::new(kids[0], kids[1], kids[2], kids[3])),
        "call" => leak(MethodCall::new(path(0), kids)),
        _ => panic!("aml op"),
    }
}

/// pre-serialised bytes as an `Aml` object (for `Scope::raw`, which returns a `Vec<u8>`)
struct RawBytes(Vec<u8>);
impl Aml for RawBytes {
    fn to_aml_bytes(&self, sink: &mut dyn acpi_tables::AmlSink) {
        sink.vec(&self.0);
    }
}

fn has_alt(op: &str) -> bool {
    matches!(op, "scope" | "scoperaw" | "pkg" | "pkgb" | "str" | "sstr" | "u64" | "usize")
}

pub fn run_aml(toks: &[&str]) -> String {
    let term = &toks[1..];
    let main = std::panic::catch_unwind(|| {
        let mut p = P { t: term, i: 0 };
        let o = build(&mut p, false);
        assert!(p.i == term.len(), "trailing tokens");
        let mut v = Vec::new();
        o.to_aml_bytes(&mut v);
        let sinks = crate::sinks::all_sinks(o);
        (v, sinks)
    });
    let alt = if has_alt(term[0]) {
        match std::panic::catch_unwind(|| {
            let mut p = P { t: term, i: 0 };
            let o = build(&mut p, true);
            let mut v = Vec::new();
            o.to_aml_bytes(&mut v);
            v
        }) {
            Ok(v) => hex(&v),
            Err(_) => "panic".to_string(),
        }
    } else {
        "~".to_string()
    };
    match main {
        Ok((v, sinks)) => format!("{} {} {}", hex(&v), alt, sinks),
        Err(_) => format!("panic {} ~", alt),
    }
}

// ─────────────────────────────────────────── generator ───────────────────────────────────────────

const LEAD: &[u8] = b"ABCDEFGHIJKLMNOPQRSTUVWXYZ_";
const NAMECH: &[u8] = b"ABCDEFGHIJKLMNOPQRSTUVWXYZ_0123456789";

fn seg(r: &mut Rng) -> String {
    let mut s = String::new();
    s.push(*r.pick(LEAD) as char);
    for _ in 0..3 { s.push(*r.pick(NAMECH) as char); }
    s
}

fn path(r: &mut Rng) -> String {
    let n = match r.below(10) { 0..=5 => 1, 6..=7 => 2, 8 => 3, _ => r.range(4, 6) };
    let segs: Vec<String> = (0..n).map(|_| seg(r)).collect();
    format!("{}{}", if r.below(3) == 0 { "\\" } else { "" }, segs.join("."))
}

fn hx(s: &str) -> String { hex(s.as_bytes()) }

pub struct G<'a> {
    pub r: &'a mut Rng,
    pub env: Vec<(String, usize)>,
}

impl<'a> G<'a> {
    fn int(&mut self) -> String {
        let (ty, bits) = *self.r.pick(&[("u8", 8u32), ("u16", 16), ("u32", 32), ("u64", 64), ("usize", 64)]);
        match self.r.below(12) {
            0 => "zero".into(),
            1 => "one".into(),
            2 => "ones".into(),
            _ => format!("{} {}", ty, self.r.scalar(bits)),
        }
    }
    fn string(&mut self) -> String {
        let k = self.r.below(12) as usize;
        let b: Vec<u8> = (0..k).map(|_| self.r.range(0x20, 0x7e) as u8).collect();
        format!("{} {}", if self.r.coin() { "str" } else { "sstr" }, hex(&b))
    }
    /// something usable where a Target / SuperName is expected
    fn target(&mut self) -> String {
        match self.r.below(6) {
            0 => "zero".into(),
            1 => format!("local {}", self.r.below(8)),
            2 => format!("arg {}", self.r.below(7)),
            3 => format!("path {}", hx(&path(self.r))),
            _ => "zero".into(),
        }
    }
    fn supername(&mut self) -> String {
        match self.r.below(3) {
            0 => format!("local {}", self.r.below(8)),
            1 => format!("arg {}", self.r.below(7)),
            _ => format!("path {}", hx(&path(self.r))),
        }
    }
    fn descriptor(&mut self) -> String {
        let r = &mut *self.r;
        let bits = *r.pick(&[16u64, 32, 64]);
        let range = |r: &mut Rng, bits: u64| -> (u64, u64) {
            let mask = if bits == 64 { u64::MAX } else { (1u64 << bits) - 1 };
            if r.below(3) == 0 {
                // choose the *derived* field (range length = max - min + 1) from the scalar mix
                let len = r.scalar(bits as u32) & mask;
                if len >= 1 {
                    let mn = (r.next() & mask) % (mask - (len - 1)).max(1);
                    return (mn, mn + (len - 1));
                }
            }
            let a = r.scalar(bits as u32) & mask;
            let b = r.scalar(bits as u32) & mask;
            let (mn, mx) = if a <= b { (a, b) } else { (b, a) };
            // the full range does not have a representable size: leave it to the refusal cases
            if mn == 0 && mx == mask { (1, mx) } else { (mn, mx) }
        };
        match r.below(8) {
            0 => format!("mem32 {} {} {}", r.below(2), r.scalar(32), r.scalar(32)),
            1 => format!("io {} {} {} {}", r.scalar(16), r.scalar(16), r.scalar(8), r.scalar(8)),
            2 => format!("irq {} {} {} {} {}", r.below(2), r.below(2), r.below(2), r.below(2), r.scalar(32)),
            3 => { let sp = *r.pick(&[0u64, 1, 2, 3, 4, 5, 6, 7, 8, 9, 10, 11, 0x7f]); format!("reg {} {} {} {} {}", sp, r.scalar(8), r.scalar(8), r.below(5), r.scalar(64)) }
            4 | 5 => { let (mn, mx) = range(r, bits); format!("asmem {} {} {} {} {} {} {}", bits, r.below(4), r.below(2), mn, mx, r.below(2), r.scalar(bits as u32)) }
            6 => { let (mn, mx) = range(r, bits); format!("asio {} {} {} {} {}", bits, mn, mx, r.below(2), r.scalar(bits as u32)) }
            _ => { let (mn, mx) = range(r, bits); format!("asbus {} {} {}", bits, mn, mx) }
        }
    }
    /// a data object (package element, Name value)
    fn data(&mut self, depth: u32) -> String {
        match self.r.below(if depth == 0 { 5 } else { 9 }) {
            0 | 1 => self.int(),
            2 => self.string(),
            3 => { let k = self.r.below(20) as usize; format!("buf {}", hex(&self.r.bytes(k))) }
            // (product numbers from the scalar mix: 0000, 0001, 00FF … make the id's integer constant narrow)
            4 => format!("eisa {}", hx(&format!("{}{}{}{:04X}", (b'A' + self.r.below(26) as u8) as char, (b'A' + self.r.below(26) as u8) as char, (b'A' + self.r.below(26) as u8) as char, if self.r.coin() { self.r.scalar(16) } else { self.r.below(65536) }))),
            5 => { let k = self.r.below(5); let mut el: Vec<String> = (0..k).map(|_| self.data(depth - 1)).collect();
                   if !el.is_empty() && self.r.below(4) == 0 { let j = self.r.below(el.len() as u64) as usize; let d = el[j].clone(); el.push(d); }
                   format!("{} {} {}", if self.r.coin() { "pkg" } else { "pkgb" }, el.len(), el.join(" ")).trim_end().to_string() }
            6 => { let k = self.r.below(4); let ds: Vec<String> = (0..k).map(|_| self.descriptor()).collect(); format!("rt {} {}", k, ds.join(" ")).trim_end().to_string() }
            7 => format!("uuid {}", hx(&{ let b = self.r.bytes(16); format!("{:02x}{:02x}{:02x}{:02x}-{:02x}{:02x}-{:02x}{:02x}-{:02x}{:02x}-{:02x}{:02x}{:02x}{:02x}{:02x}{:02x}", b[0], b[1], b[2], b[3], b[4], b[5], b[6], b[7], b[8], b[9], b[10], b[11], b[12], b[13], b[14], b[15]) })),
            _ => format!("path {}", hx(&path(self.r))),
        }
    }
    /// a TermArg (an expression)
    pub fn expr(&mut self, depth: u32) -> String {
        if depth == 0 {
            return match self.r.below(5) { 0 => self.int(), 1 => format!("local {}", self.r.below(8)), 2 => format!("arg {}", self.r.below(7)), 3 => self.string(), _ => format!("path {}", hx(&path(self.r))) };
        }
        let d = depth - 1;
        match self.r.below(20) {
            0 => self.int(),
            1 => format!("local {}", self.r.below(8)),
            2 => format!("arg {}", self.r.below(7)),
            3 => { let op = *self.r.pick(&["add", "concat", "subtract", "multiply", "shl", "shr", "and", "nand", "or", "nor", "xor", "concatres", "mod", "index", "tostring"]); format!("{} {} {} {}", op, self.target(), self.expr(d), self.expr(d)) }
            4 => { let op = *self.r.pick(&["eq", "lt", "gt", "ne", "ge", "le"]); format!("{} {} {}", op, self.expr(d), self.expr(d)) }
            5 => format!("deref {}", self.expr(d)),
            6 => format!("sizeof {}", self.supername()),
            7 => format!("objtype {}", self.supername()),
            8 => format!("{} {} {}", if self.r.coin() { "tobuffer" } else { "tointeger" }, self.target(), self.expr(d)),
            9 => format!("mid {} {} {} {}", self.expr(d), self.expr(d), self.expr(d), self.target()),
            10 => {
                // method invocation: register its arity
                let p = path(self.r);
                let n = self.r.below(4) as usize;
                if self.env.iter().any(|(q, a)| *q == p && *a != n) { return self.int(); }
                if !self.env.iter().any(|(q, _)| *q == p) { self.env.push((p.clone(), n)); }
                let args: Vec<String> = (0..n).map(|_| self.expr(d)).collect();
                format!("call {} {} {}", hx(&p), n, args.join(" ")).trim_end().to_string()
            }
            11 => self.string(),
            12 => { let k = self.r.below(16) as usize; format!("buf {}", hex(&self.r.bytes(k))) }
            13 => format!("bufterm {}", self.expr(d)),
            14 => format!("varpkg {}", self.expr(d)),
            15 => format!("store {} {}", self.supername(), self.expr(d)),
            _ => self.data(d.min(2)),
        }
    }
    fn body(&mut self, depth: u32, max: u64) -> String {
        let k = self.r.below(max + 1);
        let mut v: Vec<String> = (0..k).map(|_| self.stmt(depth)).collect();
        // now and then the same statement twice (the interpreter then passes one object twice)
        if !v.is_empty() && self.r.below(5) == 0 { let j = self.r.below(v.len() as u64) as usize; let d = v[j].clone(); v.push(d); }
        format!("{} {}", v.len(), v.join(" ")).trim_end().to_string()
    }
    /// a TermObj (a statement / namespace object)
    pub fn stmt(&mut self, depth: u32) -> String {
        if depth == 0 {
            return match self.r.below(4) { 0 => format!("ret {}", self.expr(0)), 1 => format!("store {} {}", self.supername(), self.expr(0)), 2 => format!("release {}", hx(&path(self.r))), _ => format!("name {} {}", hx(&path(self.r)), self.data(0)) };
        }
        let d = depth - 1;
        match self.r.below(22) {
            0 => format!("name {} {}", hx(&path(self.r)), self.data(d.min(2))),
            1 => format!("{} {} {}", if self.r.coin() { "scope" } else { "scoperaw" }, hx(&path(self.r)), self.body(d, 3)),
            2 => format!("device {} {}", hx(&path(self.r)), self.body(d, 3)),
            3 => format!("method {} {} {} {}", self.r.below(8), self.r.below(2), hx(&path(self.r)), self.body(d, 3)),
            4 => { let b = self.body(d, 3); format!("if {} {} {}", 1 + b.split(' ').next().unwrap().parse::<u64>().unwrap(), self.expr(d), b.splitn(2, ' ').nth(1).unwrap_or("")).trim_end().to_string() }
            5 => format!("else {}", self.body(d, 3)),
            6 => { let b = self.body(d, 2); format!("while {} {} {}", 1 + b.split(' ').next().unwrap().parse::<u64>().unwrap(), self.expr(d), b.splitn(2, ' ').nth(1).unwrap_or("")).trim_end().to_string() }
            7 => format!("store {} {}", self.supername(), self.expr(d)),
            8 => format!("ret {}", self.expr(d)),
            9 => format!("notify {} {}", self.supername(), self.expr(d)),
            10 => format!("mutex {} {}", self.r.scalar(8), hx(&path(self.r))),
            11 => format!("acquire {} {}", self.r.scalar(16), hx(&path(self.r))),
            12 => format!("release {}", hx(&path(self.r))),
            13 => format!("opregion {} {} {} {}", self.r.below(10), hx(&path(self.r)), self.expr(d), self.expr(d)),
            14 => {
                let k = self.r.below(5);
                let es: Vec<String> = (0..k).map(|_| {
                    let bits = match self.r.below(6) { 0 => 0, 1 => 62, 2 => 63, 3 => 64, 4 => self.r.range(1, 4200), _ => self.r.range(1, 64) };
                    if self.r.coin() { format!("fnamed {} {}", bits, hx(&seg(self.r))) } else { format!("freserved {}", bits) }
                }).collect();
                format!("field {} {} {} {} {} {}", self.r.below(6), self.r.below(2), self.r.below(3), hx(&path(self.r)), k, es.join(" ")).trim_end().to_string()
            }
            15 => format!("powerres {} {} {} {}", self.r.scalar(8), self.r.scalar(16), hx(&path(self.r)), self.body(d, 2)),
            16 => format!("createfield {} {} {} {}", self.namestring(), self.expr(d), self.expr(d), self.expr(d)),
            17 => format!("{} {} {} {}", if self.r.coin() { "createdw" } else { "createqw" }, self.namestring(), self.expr(d), self.expr(d)),
            _ => self.expr(d),
        }
    }
    fn namestring(&mut self) -> String {
        if self.r.coin() { format!("fieldname {}", hx(&seg(self.r))) } else { format!("path {}", hx(&path(self.r))) }
    }
    pub fn env_str(&self) -> String {
        if self.env.is_empty() { "-".into() } else { self.env.iter().map(|(p, a)| format!("{}:{}", hx(p), a)).collect::<Vec<_>>().join(",") }
    }
}

pub fn gen_aml(r: &mut Rng, tier: &str, emit: &mut dyn FnMut(String)) {
    let thorough = tier == "thorough";
    // the crate's own examples (DSDT fragments of the unit tests), by hand
    for c in [
        "- device 5f53425f2e434f4d31 1 name 5f484944 eisa 504e5030353031",
        "- scope 5f53425f2e4d424144 0",
        "- method 1 1 5f535441 1 ret u8 15",
        "- name 5f535f5f pkg 4 u8 5 zero zero zero",
        "- pkgb 2 u8 5 str 68656c6c6f",
        "- mutex 3 4d555445",
        "- powerres 1 2 50575231 1 method 0 0 5f4f4e5f 0",
        "- if 2 eq arg 0 zero ret one",
        "- createfield fieldname 464c4431 local 0 u8 8 u8 16",
        "- field 1 0 0 50524730 3 fnamed 8 41424344 freserved 16 fnamed 1 5f5f5f5f",
    ] { emit(c.to_string()); }
    // field entries whose width sits on a PkgLength width boundary (the exclusive form's widths
    // are chosen with the self-inclusive thresholds): alone, named and reserved, and in lists
    for w in [0u64, 1, 61, 62, 63, 64, 65, 4092, 4093, 4094, 4095, 4096, 4097, (1 << 20) - 4, (1 << 20) - 3, (1 << 20) - 2,
              (1 << 20) - 1, 1 << 20, (1 << 20) + 1, (1 << 28) - 2, (1 << 28) - 1] {
        emit(format!("- field 3 1 1 41424344 1 freserved {}", w));
        emit(format!("- field 5 0 2 5f53425f 1 fnamed {} 46303030", w));
        emit(format!("- field 1 0 0 50524730 3 fnamed 8 41424344 freserved {} fnamed {} 5f5f5f5f", w, w));
        emit(format!("- device 5f53425f 1 field 0 0 0 41424344 2 freserved {} fnamed 1 58585858", w));
    }
    // every leaf and every operator once with simple operands
    let n = if thorough { 60000 } else { 6000 };
    for i in 0..n {
        let mut g = G { r, env: vec![] };
        let depth = match i % 6 { 0 => 1, 1 | 2 => 2, 3 | 4 => 3, _ => 4 };
        let t = if i % 3 == 0 { g.expr(depth) } else { g.stmt(depth) };
        let e = g.env_str();
        emit(format!("{} {}", e, t));
    }
    // body sizes across the PkgLength boundaries for every length-prefixed constructor
    let sizes: Vec<usize> = {
        let mut v: Vec<usize> = (40..80).collect();
        v.extend(4070..4110);
        if thorough { v.extend((1usize << 20) - 16..(1usize << 20) + 8); }
        v
    };
    for &k in &sizes {
        let pad = hex(&vec![0xA5u8; k]);
        for head in ["scope 41424344 1 buf", "device 41424344 1 buf", "method 2 1 41424344 1 buf", "if 2 one buf", "else 1 buf", "while 2 one buf",
                     "powerres 1 2 41424344 1 buf", "pkg 1 buf", "pkgb 1 buf", "varpkg buf", "bufterm buf", "buf",
                     // Scope::raw, and multi-segment names (DualNamePrefix, MultiNamePrefix, rooted) at every boundary size
                     "scoperaw 41424344 1 buf", "scoperaw 414243442e45464748 1 buf", "scoperaw 5c414243442e454647482e494a4b4c 1 buf",
                     "scope 414243442e454647482e494a4b4c2e4d4e4f50 1 buf", "device 5c414243442e454647482e494a4b4c 1 buf",
                     "method 2 1 414243442e454647482e494a4b4c 1 buf"] {
            emit(format!("- {} {}", head, pad));
        }
        emit(format!("- rt 1 reg 0 8 0 1 {}", k));
    }
    // the 2^20 boundary for three representative constructors, in both tiers (1 MiB bodies)
    if !thorough {
        for k in (1usize << 20) - 14..(1usize << 20) - 4 {
            let pad = hex(&vec![0xA5u8; k]);
            for head in ["scope 41424344 1 buf", "method 2 1 41424344 1 buf", "buf"] {
                emit(format!("- {} {}", head, pad));
            }
        }
    }
    // resource templates: every descriptor kind, 0..n descriptors, total size across 63/64 and 255/256
    for _ in 0..(if thorough { 20000 } else { 1500 }) {
        let mut g = G { r, env: vec![] };
        let k = match g.r.below(6) { 0 => 0, 1 => 1, 2 => g.r.range(2, 4), 3 => g.r.range(5, 9), _ => g.r.range(10, 30) };
        let ds: Vec<String> = (0..k).map(|_| g.descriptor()).collect();
        emit(format!("- rt {} {}", k, ds.join(" ")).trim_end().to_string());
    }
    // templates of every payload size 2..=600 (and around the 16-bit BufferSize boundary): descriptor
    // sizes 8 (io), 9 (irq), 12 (mem32), 15 (reg), 16/26/46 (word/dword/qword address space)
    {
        let sizes: [(usize, &str); 7] = [(8, "io 1 2 3 4"), (9, "irq 1 0 1 0 9"), (12, "mem32 1 4096 256"), (15, "reg 0 8 0 1 4096"),
            (16, "asbus 16 0 255"), (26, "asio 32 16 31 0 0"), (46, "asmem 64 1 1 4096 8191 0 0")];
        let compose = |mut rem: usize| -> Option<Vec<&str>> {
            // greedy with backtracking over a tiny coin set
            let mut out = Vec::new();
            while rem >= 46 + 72 { out.push(sizes[6].1); rem -= 46; }
            // dynamic programme for the remainder (< 118)
            let mut best: Vec<Option<(usize, usize)>> = vec![None; rem + 1];
            best[0] = Some((0, 0));
            for v in 1..=rem { for (i, (sz, _)) in sizes.iter().enumerate() { if *sz <= v && best[v - sz].is_some() { best[v] = Some((i, v - sz)); break; } } }
            let mut v = rem;
            if best[v].is_none() { return None; }
            while v > 0 { let (i, prev) = best[v].unwrap(); out.push(sizes[i].1); v = prev; }
            Some(out)
        };
        let mut targets: Vec<usize> = (2..=600).collect();
        targets.extend([4090, 4091, 4092, 4093, 4094, 4095, 4096, 4097, 65530, 65531, 65532, 65533, 65534, 65535, 65536, 65537, 65538]);
        for n in targets {
            if let Some(ds) = compose(n - 2) {
                emit(format!("- rt {} {}", ds.len(), ds.join(" ")).trim_end().to_string());
            }
        }
    }
    // marker bytes in every byte lane of every descriptor field, the descriptor alone and as the last
    // child after another one (code that sniffs emitted bytes for a sentinel such as the end tag)
    {
        let lanes = |bits: u64| (bits / 8) as u32;
        let mut cases: Vec<String> = Vec::new();
        for b in crate::rng::DICT {
            let b = b as u64;
            for l in 0..4 { let v = b << (8 * l);
                cases.push(format!("mem32 1 {} 4096", v)); cases.push(format!("mem32 1 4096 {}", v)); cases.push(format!("irq 1 0 1 0 {}", v)); }
            for l in 0..2 { let v = b << (8 * l);
                cases.push(format!("io {} 2 3 4", v)); cases.push(format!("io 1 {} 3 4", v)); }
            cases.push(format!("io 1 2 {} 4", b)); cases.push(format!("io 1 2 3 {}", b)); cases.push(format!("io 1 2 {} 0", b));
            for l in 0..8 { cases.push(format!("reg 0 8 0 1 {}", b << (8 * l))); }
            if b <= 11 || b == 0x7f { cases.push(format!("reg {} 8 0 1 4096", b)); }
            cases.push(format!("reg 0 {} 0 1 4096", b)); cases.push(format!("reg 0 8 {} 1 4096", b));
            for bits in [16u64, 32, 64] {
                for l in 0..lanes(bits) {
                    let v = b << (8 * l);
                    if v >= 1 {
                        // range length = v, translation = v, minimum = v, maximum = v
                        cases.push(format!("asmem {} 1 1 4096 {} 0 0", bits, 4096 + (v - 1)).replace("4096 4096 0 0", "4096 4096 0 0"));
                        cases.push(format!("asio {} 16 {} 0 0", bits, 16 + (v - 1)));
                        cases.push(format!("asbus {} 0 {}", bits, v - 1));
                        cases.push(format!("asbus {} {} {}", bits, v, v));
                    }
                    cases.push(format!("asmem {} 1 1 16 31 0 {}", bits, v));
                    cases.push(format!("asio {} 16 31 1 {}", bits, v));
                }
            }
        }
        let mask_ok = |c: &String| -> bool {
            // keep arguments inside their width (16-bit ranges must stay below 2^16 …)
            let t: Vec<&str> = c.split(' ').collect();
            if t[0].starts_with("as") {
                let bits: u32 = t[1].parse().unwrap();
                let lim: u128 = 1u128 << bits;
                t[2..].iter().all(|x| x.parse::<u128>().map(|v| v < lim).unwrap_or(false))
            } else { true }
        };
        for c in cases.iter().filter(|c| mask_ok(c)) {
            emit(format!("- rt 1 {}", c));
            emit(format!("- rt 2 io 1 2 3 4 {}", c));
        }
    }
    // all flag combinations of the descriptors exhaustively
    for m in 0..16u32 { emit(format!("- rt 1 irq {} {} {} {} 33", m & 1, m >> 1 & 1, m >> 2 & 1, m >> 3 & 1)); }
    for bits in [16u64, 32, 64] { for c in 0..4 { for rw in 0..2 { for t in 0..2 { emit(format!("- rt 1 asmem {} {} {} 4096 8191 {} 77", bits, c, rw, t)); } } } emit(format!("- rt 1 asio {} 16 31 1 5", bits)); emit(format!("- rt 1 asbus {} 0 255", bits)); }
}

/// C15: alternative construction paths, sweeping body sizes
pub fn gen_amlalt(r: &mut Rng, tier: &str, emit: &mut dyn FnMut(String)) {
    let thorough = tier == "thorough";
    let step = if thorough { 1 } else { 7 };
    let mut k = 0usize;
    while k <= 4200 {
        let pad = hex(&vec![0x5Au8; k]);
        emit(format!("- scope 5c5f53425f 1 buf {}", pad));
        emit(format!("- scoperaw 5f53425f2e50434930 2 u8 7 buf {}", pad));
        emit(format!("- pkg 2 buf {} u16 4660", pad));
        emit(format!("- pkgb 1 buf {}", pad));
        k += if (56..72).contains(&k) || (4080..4104).contains(&k) { 1 } else { step };
    }
    if thorough {
        for k in (1usize << 20) - 12..(1usize << 20) + 8 {
            let pad = hex(&vec![0x5Au8; k]);
            emit(format!("- scope 5c5f53425f 1 buf {}", pad));
            emit(format!("- pkg 1 buf {}", pad));
        }
    }
    // element lists / child lists from the generator
    for _ in 0..(if thorough { 20000 } else { 2000 }) {
        let mut g = G { r, env: vec![] };
        let k = g.r.below(8);
        let root = *g.r.pick(&["scope", "scoperaw", "pkg", "pkgb"]);
        let kids: Vec<String> = (0..k).map(|_| if root.starts_with("scope") { g.stmt(2) } else { g.data(2) }).collect();
        let e = g.env_str();
        if root.starts_with("scope") {
            emit(format!("{} {} {} {} {}", e, root, hx(&path(g.r)), k, kids.join(" ")).trim_end().to_string());
        } else {
            emit(format!("{} {} {} {}", e, root, k, kids.join(" ")).trim_end().to_string());
        }
    }
    // strings and integers
    for _ in 0..(if thorough { 20000 } else { 2000 }) {
        let k = r.below(40) as usize;
        let b: Vec<u8> = (0..k).map(|_| r.range(0x20, 0x7e) as u8).collect();
        emit(format!("- {} {}", if r.coin() { "str" } else { "sstr" }, hex(&b)));
        emit(format!("- {} {}", if r.coin() { "u64" } else { "usize" }, r.scalar(64)));
    }
}

/// C18: oversized counts and sizes in AML
pub fn gen_amlbig(_r: &mut Rng, tier: &str, emit: &mut dyn FnMut(String)) {
    for n in [254usize, 255, 256, 257, 300, 512, 1000] {
        let el = vec!["zero"; n].join(" ");
        emit(format!("- pkg {} {}", n, el));
        emit(format!("- pkgb {} {}", n, el));
    }
    for a in 0..=9u64 { emit(format!("- method {} 0 41424344 0", a)); }
    for a in [15u64, 16, 128, 255] { emit(format!("- method {} 1 41424344 0", a)); }
    for (bits, max) in [(16u64, 65535u64), (32, 4294967295), (64, u64::MAX)] {
        emit(format!("- asmem {} 0 1 0 {} 0 0", bits, max));          // size 2^N: refused
        emit(format!("- asio {} 0 {} 0 0", bits, max));
        emit(format!("- asbus {} 0 {}", bits, max));
        emit(format!("- asmem {} 0 1 1 {} 0 0", bits, max));          // size 2^N − 1: fits
        emit(format!("- asmem {} 0 1 5 4 0 0", bits));                // max < min: refused
        emit(format!("- asio {} 9 3 0 0", bits));
        emit(format!("- asbus {} {} 0", bits, max));
    }
    for l in 7..=9u64 { emit(format!("- local {}", l)); emit(format!("- arg {}", l - 1)); }
    // PkgLength ≥ 2^28 (256 MiB bodies): both tiers run one refusal and one that just fits
    let sizes: &[usize] = if tier == "thorough" { &[(1 << 28) - 8, (1 << 28) - 7, (1 << 28) - 6, (1 << 28) - 5, 1 << 28] } else { &[(1 << 28) - 6] };
    for &k in sizes {
        emit(format!("- bufbig {}", k));
    }
    for bits in [(1u64 << 28) - 1, 1 << 28, (1 << 28) + 1, 1 << 32] {
        emit(format!("- field 0 0 0 41424344 1 freserved {}", bits));
        emit(format!("- field 0 0 0 41424344 1 fnamed {} 41424344", bits));
    }
}

/// `bufbig k`: a BufferData of k bytes — reported as a digest instead of hex
pub fn run_amlbig(toks: &[&str]) -> String {
    if toks[1] == "bufbig" {
        let k: usize = toks[2].parse().unwrap();
        let r = std::panic::catch_unwind(|| {
            let b = BufferData::new(vec![0x42u8; k]);
            let mut v = Vec::new();
            b.to_aml_bytes(&mut v);
            (hex(&v[..12.min(v.len())]), v.len())
        });
        return match r { Ok((h, l)) => format!("head:{} len:{}", h, l), Err(_) => "panic".to_string() };
    }
    run_aml(toks)
}
