//! streams for AML scalars: `int`, `intblk` (C08), `path` (C09, C18), `eisa`, `eisablk`, `uuid` (C16).
use crate::rng::Rng;
use crate::util::*;
use acpi_tables::aml::{EISAName, Path, Uuid};
use acpi_tables::Aml;

fn enc_int(ty: &str, v: u64) -> Vec<u8> {
    let mut out = Vec::new();
    match ty {
        "u8" => (v as u8).to_aml_bytes(&mut out),
        "u16" => (v as u16).to_aml_bytes(&mut out),
        "u32" => (v as u32).to_aml_bytes(&mut out),
        "u64" => v.to_aml_bytes(&mut out),
        "usize" => (v as usize).to_aml_bytes(&mut out),
        _ => panic!("type"),
    }
    out
}

const TYPES: [(&str, u32); 5] = [("u8", 8), ("u16", 16), ("u32", 32), ("u64", 64), ("usize", 64)];

pub fn gen_int(r: &mut Rng, tier: &str, emit: &mut dyn FnMut(String)) {
    // width boundaries ±2 through every type that can carry the value
    for k in [0u32, 1, 8, 16, 32, 63] {
        for d in -2i64..=2 {
            let base: i128 = if k == 0 { 0 } else { 1i128 << k };
            let v = base + d as i128;
            if v < 0 {
                continue;
            }
            for (ty, bits) in TYPES {
                if v < (1i128 << bits) {
                    emit(format!("{} {}", ty, v));
                }
            }
        }
    }
    for (ty, bits) in TYPES {
        let max: u128 = (1u128 << bits) - 1;
        emit(format!("{} {}", ty, max));
        emit(format!("{} {}", ty, max - 1));
        for b in 0..bits {
            emit(format!("{} {}", ty, 1u64 << b));
        }
        for f in 0..256u64 {
            let v = 0x0101_0101_0101_0101u64.wrapping_mul(f) & (max as u64);
            emit(format!("{} {}", ty, v));
        }
    }
    let n = if tier == "thorough" { 1_000_000 } else { 50_000 };
    for _ in 0..n {
        let (ty, bits) = *r.pick(&TYPES);
        let v = match r.below(3) {
            0 => r.scalar(bits),
            1 => r.next() & (if bits == 64 { u64::MAX } else { (1 << bits) - 1 }),
            _ => {
                let b = r.range(1, bits as u64);
                r.next() & (if b == 64 { u64::MAX } else { (1 << b) - 1 })
            }
        };
        emit(format!("{} {}", ty, v));
    }
}

pub fn run_int(toks: &[&str]) -> String {
    hex(&enc_int(toks[0], n(toks[1])))
}

pub fn gen_intblk(_r: &mut Rng, tier: &str, emit: &mut dyn FnMut(String)) {
    for (ty, _) in TYPES {
        emit(format!("{} 0 256", ty));
    }
    for (ty, bits) in TYPES {
        if bits >= 16 {
            emit(format!("{} 0 65536", ty));
            if bits >= 32 {
                emit(format!("{} 65536 65536", ty));
                emit(format!("{} {} 65536", ty, (1u64 << 32) - 65536));
            }
            if bits == 64 {
                emit(format!("{} {} 65536", ty, 1u64 << 32));
            }
        }
    }
    if tier == "thorough" {
        for (ty, bits) in TYPES {
            if bits >= 32 {
                for b in 0..65536u64 {
                    emit(format!("{} {} 65536", ty, b * 65536));
                }
            }
        }
    }
}

pub fn run_intblk(toks: &[&str]) -> String {
    let ty = toks[0];
    let start: u64 = n(toks[1]);
    let count: u64 = n(toks[2]);
    let bits = TYPES.iter().find(|(t, _)| *t == ty).unwrap().1;
    let mut h = FNV_INIT;
    for v in start..start + count {
        if bits < 64 && v >= (1u64 << bits) {
            h = fnv_step(h, 0xFE);
        } else {
            h = fnv_from(h, &enc_int(ty, v));
            h = fnv_step(h, 0xFF);
        }
    }
    format!("{}", h)
}

const LEAD: &[u8] = b"ABCDEFGHIJKLMNOPQRSTUVWXYZ_";
const NAMECH: &[u8] = b"ABCDEFGHIJKLMNOPQRSTUVWXYZ_0123456789";

fn seg(r: &mut Rng) -> String {
    let mut s = String::new();
    s.push(*r.pick(LEAD) as char);
    for _ in 0..3 {
        s.push(*r.pick(NAMECH) as char);
    }
    s
}

pub fn gen_path(r: &mut Rng, tier: &str, emit: &mut dyn FnMut(String)) {
    // every case twice: through `Path::new` and through `Path::from`
    let mut emit2 = |l: String| { emit(l.clone()); emit(format!("{} f", l)); };
    let emit: &mut dyn FnMut(String) = &mut emit2;
    let mut e = |s: &str| emit(hex(s.as_bytes()));
    // corpus
    for s in ["_SB_", "\\_SB_", "_SB_.PCI0", "\\_SB_.PCI0", "_SB_.PCI0.S08_", "\\_SB_.PCI0.S08_.ABCD",
              "", "\\", ".", "\\.", "_SB_.", "._SB_", "_SB_..PCI0", "\\\\_SB_", "_SB", "_SB_X", "é_SB", "_SBé",
              "_SB_.PC\u{e9}", "^_SB_", "ab1d", "\\ABCD.EFGH.IJK"] {
        e(s);
    }
    // every segment count 1..=257 rooted and not
    for count in 1..=257usize {
        for rooted in [false, true] {
            let segs: Vec<String> = (0..count).map(|_| seg(r)).collect();
            let s = format!("{}{}", if rooted { "\\" } else { "" }, segs.join("."));
            e(&s);
        }
    }
    for count in [258usize, 300, 511, 512, 513, 1000] {
        let segs: Vec<String> = (0..count).map(|_| seg(r)).collect();
        e(&segs.join("."));
    }
    // each position over its whole alphabet
    for pos in 0..4 {
        let alpha = if pos == 0 { LEAD } else { NAMECH };
        for c in alpha {
            let mut s = *b"A1_Z";
            s[pos] = *c;
            e(std::str::from_utf8(&s).unwrap());
            e(&format!("\\XYZ0.{}", std::str::from_utf8(&s).unwrap()));
        }
    }
    // every byte value 1..=127 at every position (lower case, digits first, punctuation…)
    for pos in 0..4 {
        for c in 1u8..=127 {
            let mut s = *b"ABCD";
            s[pos] = c;
            e(std::str::from_utf8(&s).unwrap());
        }
    }
    // malformed: one piece of length 0..3 or 5..8 at every position of a 1..4-segment path
    for total in 1..=4usize {
        for bad in 0..total {
            for len in [0usize, 1, 2, 3, 5, 6, 7, 8] {
                for rooted in [false, true] {
                    let segs: Vec<String> = (0..total)
                        .map(|i| if i == bad { "ABCDEFGH"[..len].to_string() } else { seg(r) })
                        .collect();
                    e(&format!("{}{}", if rooted { "\\" } else { "" }, segs.join(".")));
                }
            }
        }
    }
    let nrand = if tier == "thorough" { 200_000 } else { 10_000 };
    for _ in 0..nrand {
        let count = match r.below(10) { 0..=5 => r.range(1, 4), 6..=8 => r.range(5, 40), _ => r.range(41, 270) } as usize;
        let mut segs: Vec<String> = (0..count).map(|_| seg(r)).collect();
        if r.below(5) == 0 {
            // perturb one segment
            let i = r.below(count as u64) as usize;
            match r.below(4) {
                0 => { segs[i].pop(); }
                1 => segs[i].push('X'),
                2 => segs[i] = segs[i].to_lowercase(),
                _ => segs[i] = String::new(),
            }
        }
        e(&format!("{}{}", if r.coin() { "\\" } else { "" }, segs.join(".")));
    }
}

pub fn run_path(toks: &[&str]) -> String {
    let s = String::from_utf8(unhex(toks[0])).expect("utf8");
    // `f`: the same string through the `From<&str>` conversion (`"…".into()`), the other public way to a Path
    let p = if toks.len() > 1 && toks[1] == "f" { Path::from(s.as_str()) } else { Path::new(&s) };
    let mut out = Vec::new();
    p.to_aml_bytes(&mut out);
    hex(&out)
}

const HEXD: &[u8] = b"0123456789abcdefABCDEF";

pub fn gen_eisa(r: &mut Rng, tier: &str, emit: &mut dyn FnMut(String)) {
    let mut e = |s: &str| emit(hex(s.as_bytes()));
    for s in ["PNP0A03", "PNP0a03", "ACPI0010", "AAA0000", "ZZZFFFF", "ZZZffff", "", "PNP0A0", "PNP0A033", "PNP0A0G",
              "PNPGA03", "PNP0A0\u{e9}", "\u{e9}NP0A03", "P\u{e9}P0A0", "pnp0a03", "@@@0000", "___0000", "?NP0A03", "PN 0A03"] {
        e(s);
    }
    // each of the 7 positions over its whole alphabet, others fixed at 3 settings
    for base in ["PNP0A03", "AAA0000", "ZZZFFFF"] {
        for pos in 0..3 {
            for c in b'A'..=b'Z' {
                let mut s = base.as_bytes().to_vec();
                s[pos] = c;
                e(std::str::from_utf8(&s).unwrap());
            }
        }
        for pos in 3..7 {
            for c in HEXD {
                let mut s = base.as_bytes().to_vec();
                s[pos] = *c;
                e(std::str::from_utf8(&s).unwrap());
            }
            // every other ASCII byte at a digit position: must be refused
            for c in 1u8..=127 {
                let mut s = base.as_bytes().to_vec();
                s[pos] = c;
                e(std::str::from_utf8(&s).unwrap());
            }
        }
    }
    let nrand = if tier == "thorough" { 1_000_000 } else { 100_000 };
    for _ in 0..nrand {
        let mut s = Vec::new();
        for _ in 0..3 {
            s.push(b'A' + r.below(26) as u8);
        }
        for _ in 0..4 {
            s.push(*r.pick(HEXD));
        }
        if r.below(20) == 0 {
            match r.below(3) {
                0 => { s.pop(); }
                1 => s.push(b'0'),
                _ => { let i = r.below(7) as usize; s[i] = r.range(1, 127) as u8; }
            }
        }
        e(std::str::from_utf8(&s).unwrap());
    }
}

pub fn run_eisa(toks: &[&str]) -> String {
    let s = String::from_utf8(unhex(toks[0])).expect("utf8");
    let mut out = Vec::new();
    EISAName::new(&s).to_aml_bytes(&mut out);
    hex(&out)
}

/// all ids with a given letter triple: `eisablk <triple index 0..17575>`
pub fn gen_eisablk(_r: &mut Rng, tier: &str, emit: &mut dyn FnMut(String)) {
    if tier == "thorough" {
        for i in 0..17576u32 {
            emit(format!("{}", i));
        }
    } else {
        for i in [0u32, 1, 25, 26, 675, 676, 10403, 17575] {
            emit(format!("{}", i));
        }
    }
}

pub fn run_eisablk(toks: &[&str]) -> String {
    let i: u32 = n(toks[0]);
    let l = [b'A' + (i / 676) as u8, b'A' + (i / 26 % 26) as u8, b'A' + (i % 26) as u8];
    const UP: &[u8] = b"0123456789ABCDEF";
    let mut h = FNV_INIT;
    let mut s = [l[0], l[1], l[2], 0, 0, 0, 0];
    for d in 0..65536u32 {
        s[3] = UP[(d >> 12) as usize & 15];
        s[4] = UP[(d >> 8) as usize & 15];
        s[5] = UP[(d >> 4) as usize & 15];
        s[6] = UP[d as usize & 15];
        let mut out = Vec::new();
        EISAName::new(std::str::from_utf8(&s).unwrap()).to_aml_bytes(&mut out);
        h = fnv_from(h, &out);
        h = fnv_step(h, 0xFF);
    }
    format!("{}", h)
}

pub fn gen_uuid(r: &mut Rng, tier: &str, emit: &mut dyn FnMut(String)) {
    let mut e = |s: &str| emit(hex(s.as_bytes()));
    let base = "33DB4D5B-1FF7-401C-9657-7441C03DD766";
    for s in [base, "33db4d5b-1ff7-401c-9657-7441c03dd766", "00000000-0000-0000-0000-000000000000",
              "ffffffff-ffff-ffff-ffff-ffffffffffff", "FFFFFFFF-FFFF-FFFF-FFFF-FFFFFFFFFFFF", "",
              "33DB4D5B-1FF7-401C-9657-7441C03DD76", "33DB4D5B-1FF7-401C-9657-7441C03DD7666",
              "33DB4D5B01FF7-401C-9657-7441C03DD766", "33DB4D5B-1FF7-401C-9657-7441C03DD76\u{e9}",
              "\u{e9}3DB4D5B-1FF7-401C-9657-7441C03DD766", "33DB4D5B-1FF7-401C-9657-7441C03DD7-6"] {
        e(s);
    }
    // every nibble position × 22 digit spellings; every dash position broken; one-position malformations
    for pos in 0..36 {
        for c in HEXD {
            let mut s = base.as_bytes().to_vec();
            s[pos] = *c;
            e(std::str::from_utf8(&s).unwrap());
        }
        // every other ASCII byte at this position (a parser built on a library routine may accept '+', a
        // blank, an underscore …)
        for c in 1u8..=127 {
            if HEXD.contains(&c) { continue; }
            let mut s = base.as_bytes().to_vec();
            s[pos] = c;
            e(std::str::from_utf8(&s).unwrap());
        }
    }
    // two-position malformations that keep the length, the number of dashes and the number of hex
    // digits: a separator moved to any other position (4 x 32), every permutation of the five group
    // lengths, an empty group, adjacent dashes
    for d in [8usize, 13, 18, 23] {
        for p in 0..36 {
            if p == 8 || p == 13 || p == 18 || p == 23 { continue; }
            let mut s = base.as_bytes().to_vec();
            s[d] = s[p];
            s[p] = b'-';
            e(std::str::from_utf8(&s).unwrap());
        }
    }
    {
        let digits: Vec<u8> = base.bytes().filter(|c| *c != b'-').collect();
        let lens = [8usize, 4, 4, 4, 12];
        let mut perm = [0usize, 1, 2, 3, 4];
        // all 120 orders of the group lengths (duplicates among the three 4s are harmless)
        fn heap(k: usize, a: &mut [usize; 5], out: &mut Vec<[usize; 5]>) {
            if k == 1 { out.push(*a); return; }
            for i in 0..k {
                heap(k - 1, a, out);
                if k % 2 == 0 { a.swap(i, k - 1); } else { a.swap(0, k - 1); }
            }
        }
        let mut perms = Vec::new();
        heap(5, &mut perm, &mut perms);
        for p in perms {
            let mut s = Vec::new();
            let mut at = 0;
            for (gi, g) in p.iter().enumerate() {
                if gi > 0 { s.push(b'-'); }
                s.extend_from_slice(&digits[at..at + lens[*g]]);
                at += lens[*g];
            }
            e(std::str::from_utf8(&s).unwrap());
        }
        for groups in [[0usize, 12, 4, 4, 12], [8, 0, 8, 4, 12], [8, 4, 4, 0, 16], [16, 4, 4, 4, 4], [8, 4, 4, 16, 0],
                       [7, 5, 4, 4, 12], [9, 3, 4, 4, 12], [8, 4, 4, 5, 11], [8, 4, 4, 3, 13], [8, 5, 3, 4, 12]] {
            let mut s = Vec::new();
            let mut at = 0;
            for (gi, g) in groups.iter().enumerate() {
                if gi > 0 { s.push(b'-'); }
                s.extend_from_slice(&digits[at..at + g]);
                at += g;
            }
            e(std::str::from_utf8(&s).unwrap());
        }
    }
    let nrand = if tier == "thorough" { 300_000 } else { 20_000 };
    for k in 0..nrand {
        if k % 40 == 0 {
            // random digits, separators at four random positions (length, dash and digit counts kept)
            let mut s: Vec<u8> = (0..36).map(|_| *r.pick(HEXD)).collect();
            let mut placed = 0;
            while placed < 4 {
                let i = r.below(36) as usize;
                if s[i] != b'-' { s[i] = b'-'; placed += 1; }
            }
            e(std::str::from_utf8(&s).unwrap());
            continue;
        }
        let mut s = Vec::new();
        for i in 0..36 {
            if i == 8 || i == 13 || i == 18 || i == 23 { s.push(b'-'); } else { s.push(*r.pick(HEXD)); }
        }
        if r.below(15) == 0 {
            match r.below(3) {
                0 => { s.pop(); }
                1 => s.push(b'0'),
                _ => { let i = r.below(36) as usize; s[i] = r.range(1, 127) as u8; }
            }
        }
        e(std::str::from_utf8(&s).unwrap());
    }
}

pub fn run_uuid(toks: &[&str]) -> String {
    let s = String::from_utf8(unhex(toks[0])).expect("utf8");
    let mut out = Vec::new();
    Uuid::new(&s).to_aml_bytes(&mut out);
    hex(&out)
}
