//! SplitMix64: the single source of randomness.
pub struct Rng(u64);

/// bytes with a meaning in AML / resource descriptors / table framing
pub const DICT: [u8; 28] = [0x79, 0x00, 0x01, 0xff, 0x0a, 0x0b, 0x0c, 0x0d, 0x0e, 0x10, 0x11, 0x12, 0x13, 0x14, 0x2e, 0x2f,
    0x5b, 0x5c, 0x5e, 0x5f, 0x86, 0x47, 0x88, 0x87, 0x8a, 0x82, 0x89, 0x24];

impl Rng {
    pub fn new(seed: u64) -> Self {
        Rng(seed)
    }
    pub fn next(&mut self) -> u64 {
        self.0 = self.0.wrapping_add(0x9E37_79B9_7F4A_7C15);
        let mut z = self.0;
        z = (z ^ (z >> 30)).wrapping_mul(0xBF58_476D_1CE4_E5B9);
        z = (z ^ (z >> 27)).wrapping_mul(0x94D0_49BB_1331_11EB);
        z ^ (z >> 31)
    }
    /// uniform in 0..n (n > 0)
    pub fn below(&mut self, n: u64) -> u64 {
        self.next() % n
    }
    pub fn range(&mut self, lo: u64, hi_incl: u64) -> u64 {
        lo + self.below(hi_incl - lo + 1)
    }
    pub fn coin(&mut self) -> bool {
        self.next() & 1 == 1
    }
    pub fn pick<'a, T>(&mut self, xs: &'a [T]) -> &'a T {
        &xs[self.below(xs.len() as u64) as usize]
    }
    /// Scalar mix of DESIGN §5.2 for a value of `bits` bits: boundaries, single bits,
    /// byte-fill, asymmetric pattern, uniform.
    pub fn scalar(&mut self, bits: u32) -> u64 {
        let mask = if bits == 64 { u64::MAX } else { (1u64 << bits) - 1 };
        match self.below(12) {
            10 => self.dict_scalar(bits),
            11 => (self.dict_scalar(bits) | (self.next() & 0x00ff_00ff_00ff_00ff)) & mask,
            0 => 0,
            1 => 1,
            2 => mask,
            3 => mask - 1,
            4 => 1u64 << self.below(bits as u64),
            5 => 0x0101_0101_0101_0101u64.wrapping_mul(self.below(256)) & mask,
            6 => 0x0123_4567_89ab_cdef & mask,
            7 => 0xfedc_ba98_7654_3210 >> (64 - bits),
            _ => self.next() & mask,
        }
    }
    /// one or two *marker* bytes (bytes that have a meaning somewhere in the encodings the crate
    /// emits: end tag, opcodes, prefixes, descriptor tags) in random byte lanes of an otherwise zero
    /// value — for code that inspects emitted bytes for a sentinel
    pub fn dict_scalar(&mut self, bits: u32) -> u64 {
        let lanes = (bits / 8).max(1) as u64;
        let mask = if bits == 64 { u64::MAX } else { (1u64 << bits) - 1 };
        let mut v = (*self.pick(&DICT) as u64) << (8 * self.below(lanes));
        if self.coin() {
            v |= (*self.pick(&DICT) as u64) << (8 * self.below(lanes));
        }
        v & mask
    }
    pub fn bytes(&mut self, n: usize) -> Vec<u8> {
        if n > 0 && self.below(5) == 0 {
            // marker bytes only (see dict_scalar)
            return (0..n).map(|_| *self.pick(&DICT)).collect();
        }
        (0..n).map(|_| self.next() as u8).collect()
    }
}
