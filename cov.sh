#!/bin/sh
# cov.sh [tier] — development tool (not a registered check): how much of /repo/src do the
# correspondence streams execute?  Builds the harness with -C instrument-coverage on the nightly
# toolchain (llvm-tools are installed there), runs every stream's generator and interpreter, and
# prints llvm-cov's per-file report plus the uncovered lines.  Output also in coverage/report.txt.
set -e
cd "$(dirname "$0")"
TIER=${1:-quick}
T=$(ls -d /root/.rustup/toolchains/nightly-x86_64-unknown-linux-gnu/lib/rustlib/*/bin | head -1)
export CARGO_NET_OFFLINE=true CARGO_TARGET_DIR="$PWD/.cache/target-cov"
export RUSTFLAGS="--cfg rust_vmm_acpi_tables_verif --check-cfg cfg(rust_vmm_acpi_tables_verif) -Awarnings -C instrument-coverage"
(cd harness && cargo +nightly build --offline --release 2>&1 | tail -1)
H="$CARGO_TARGET_DIR/release/harness"
W="$PWD/.cache/cov"
rm -rf "$W"; mkdir -p "$W" coverage
for s in cks pkglen pkgblk int intblk path eisa uuid tbl tblbig ent fix sdt misc aml amlalt amlbig; do
  LLVM_PROFILE_FILE="$W/gen-$s.profraw" "$H" gen $s "$TIER" 1 > "$W/$s.cases"
  LLVM_PROFILE_FILE="$W/run-$s.profraw" "$H" run < "$W/$s.cases" > /dev/null 2>&1 || true
done
"$T/llvm-profdata" merge -sparse "$W"/*.profraw -o "$W/all.profdata"
{
  echo "# line/region coverage of /repo/src by the $TIER streams (harness gen | harness run)"
  "$T/llvm-cov" report "$H" -instr-profile="$W/all.profdata" --sources /repo/src
  echo
  echo "# lines never executed"
  "$T/llvm-cov" show "$H" -instr-profile="$W/all.profdata" --sources /repo/src --show-line-counts-or-regions 2>/dev/null \
    | grep -E "^/repo|^ +[0-9]+\| +0\|"
} > coverage/report.txt
rm -rf "$W"
cat coverage/report.txt
