#!/bin/sh
# verify_seed.sh <ID> : confirm a seeded change produced in /tmp/wt_<ID>/seeded_out in a fresh scratch worktree,
# then keep it under /verif/seeded/<ID>/ and remove both worktrees.  Development tool.
set -u
ID=$1
PFX=${2:-wt}
SUF=${3:-}
SRC=/tmp/${PFX}_$ID/seeded_out
VS=/tmp/vs_$ID
git -C /repo worktree remove --force $VS >/dev/null 2>&1
git -C /repo worktree add --detach $VS HEAD >/dev/null 2>&1 || exit 2
mkdir -p $VS/tests
cp $SRC/demo.rs $VS/tests/seeded_demo.rs
cd $VS
export CARGO_NET_OFFLINE=true
A=$(timeout 600 cargo test --offline --test seeded_demo 2>&1 | grep "test result" | head -1)
echo "unchanged: $A"
git apply $SRC/patch.diff || { echo "patch does not apply"; exit 3; }
B=$(timeout 600 cargo test --offline --lib 2>&1 | grep "test result" | head -1)
echo "with change, baseline: $B"
C=$(timeout 600 cargo test --offline --test seeded_demo 2>&1 | grep "test result" | head -1)
echo "with change, demo: $C"
ok=1
echo "$A" | grep -q "ok\." || ok=0
echo "$B" | grep -q "88 passed; 0 failed" || ok=0
echo "$C" | grep -q "FAILED" || ok=0
if [ $ok = 1 ]; then
  mkdir -p /verif/seeded/$ID$SUF
  cp $SRC/patch.diff $SRC/demo.rs /verif/seeded/$ID$SUF/
  cp $SRC/meta.json /verif/seeded/$ID$SUF/meta.agent.json
  echo "CONFIRMED $ID"
else
  echo "NOT-CONFIRMED $ID"
fi
cd /
git -C /repo worktree remove --force $VS >/dev/null 2>&1
rm -rf $VS
