#!/usr/bin/env python3
"""mutsweep.py — development tool (NOT a registered check): a systematic mutation sweep of /repo/src
against the tie (harness + driver streams), to find what the machinery does not notice.

  mutsweep.py gen                      enumerate mutants of the non-test code  -> .cache/mut/mutants.jsonl
  mutsweep.py base                     generate quick-tier case files and baseline driver output
  mutsweep.py run [--jobs J] [--sample N] [--seed S] [--files a.rs,b.rs] [--ops A,B] [--ids i,j]
                                       stage 1: per mutant, rebuild a scratch copy of the crate + harness,
                                       run the streams (early exit at the first new failure line);
                                       stage 2 for stream survivors: the crate's own 88 tests
                                       -> .cache/mut/results.jsonl (appended; already-run ids are skipped)
  mutsweep.py report                   kill matrix, survivors

Scratch copies live under /tmp/mutw/<worker> and are removed at the end of `run`.
The results of the sweep described in DESIGN.md 17.1 are kept in mutsweep/RESULTS.jsonl (one line per mutant).
A mutant is *caught* when some stream yields a failure line ("F …") the unmutated tree does not yield, or
the harness/driver dies or times out.  Survivors that also pass the 88 tests are the interesting ones:
either equivalent mutants (no observable change through the public API) or gaps in the tie.
"""
import concurrent.futures
import json
import os
import random
import re
import shutil
import subprocess
import sys
import time

ROOT = os.path.dirname(os.path.abspath(__file__))
CACHE = os.path.join(ROOT, ".cache", "mut")
REPO = "/repo"
DRIVER = os.path.join(ROOT, "lean", ".lake", "build", "bin", "driver")
HB = os.path.join(ROOT, ".cache", "target", "release", "harness")
SCR = "/tmp/mutw" + ("-" + sys.argv[sys.argv.index("--base") + 1] if "--base" in sys.argv else "")
ALL_STREAMS = ["ent", "fix", "tbl", "misc", "sdt", "cks", "aml", "amlalt", "path", "int", "intblk", "eisa", "uuid",
               "pkglen", "eisablk", "amlbig", "tblbig"]
ORDER = {
    "aml.rs": ["aml", "amlalt", "path", "int", "intblk", "eisa", "uuid", "pkglen", "misc", "eisablk", "amlbig",
               "ent", "fix", "tbl", "sdt", "cks", "tblbig"],
    "lib.rs": ["cks", "ent", "fix", "tbl", "sdt", "misc", "aml", "amlalt", "path", "int", "intblk", "eisa", "uuid",
               "pkglen", "eisablk", "amlbig", "tblbig"],
    "sdt.rs": ["sdt", "misc", "ent", "fix", "tbl", "cks", "aml", "amlalt"],
}
TABLE_ORDER = ["ent", "fix", "tbl", "misc", "tblbig", "sdt", "cks"]

BINOPS = [(" + ", " - "), (" - ", " + "), (" * ", " + "), (" / ", " * "), (" << ", " >> "), (" >> ", " << "),
          (" | ", " & "), (" & ", " | "), (" ^ ", " | "), (" |= ", " &= "), (" &= ", " |= "), (" += ", " -= "),
          (" -= ", " += "), (" < ", " <= "), (" <= ", " < "), (" > ", " >= "), (" >= ", " > "), (" == ", " != "),
          (" != ", " == "), (" && ", " || "), (" || ", " && "), (" % ", " / ")]
STMT = re.compile(r"^\s*(?:[A-Za-z_][\w\.\[\]\(\)&\* ]*\.\w+!?\(.*\)|[a-z_][\w:]*!?\(.*\)|[\w\.\[\]\* ]+ (?:[-+|&^]|<<|>>)?= .*);\s*$")


def code_part(line):
    """the part of a source line that is code (no // comment); string literals blanked"""
    s = re.sub(r'"(?:[^"\\]|\\.)*"', lambda m: '"' + " " * (len(m.group(0)) - 2) + '"', line)
    s = re.sub(r"/\*.*?\*/", lambda m: " " * len(m.group(0)), s)
    i = s.find("//")
    return s if i < 0 else s[:i]


def nontest_lines(path):
    lines = open(path).read().split("\n")
    end = len(lines)
    for i, l in enumerate(lines):
        if l.strip().startswith("#[cfg(test)]"):
            end = i
            break
    return lines, end


def gen():
    os.makedirs(CACHE, exist_ok=True)
    muts = []
    for f in sorted(os.listdir(os.path.join(REPO, "src"))):
        if not f.endswith(".rs"):
            continue
        path = os.path.join(REPO, "src", f)
        lines, end = nontest_lines(path)
        prev_stmt = None
        in_block = False
        for i in range(end):
            raw = lines[i]
            st = raw.strip()
            if in_block:
                if "*/" in st:
                    in_block = False
                continue
            if st.startswith("/*"):
                in_block = "*/" not in st
                continue
            if not st or st.startswith("//") or st.startswith("#[") or st.startswith("use ") or st.startswith("#!["):
                prev_stmt = None
                continue
            code = code_part(raw)
            # A: binary operators
            for a, b in BINOPS:
                for m in re.finditer(re.escape(a), code):
                    new = raw[:m.start()] + b + raw[m.end():]
                    muts.append(dict(file=f, line=i + 1, op="bin", before=raw, after=new, what="%s->%s@%d" % (a.strip(), b.strip(), m.start())))
            # B: integer literals
            for m in re.finditer(r"(?<![\w\.])(0x[0-9a-fA-F_]+|\d[\d_]*)(?=(?:u8|u16|u32|u64|usize|i32)?\b)(?![\w]*\.\d)", code):
                tok = m.group(1)
                if re.search(r"\[u8;\s*$", code[:m.start()]) or re.search(r";\s*$", code[:m.start()]) and "]" in code[m.end():m.end() + 2]:
                    pass  # array sizes: mutate anyway (often stillborn)
                try:
                    v = int(tok.replace("_", ""), 0)
                except ValueError:
                    continue
                for nv in ([v + 1] + ([v - 1] if v >= 1 else [])):
                    txt = ("0x%x" % nv) if tok.startswith("0x") else str(nv)
                    new = raw[:m.start(1)] + txt + raw[m.end(1):]
                    muts.append(dict(file=f, line=i + 1, op="lit", before=raw, after=new, what="%s->%s@%d" % (tok, txt, m.start(1))))
            # C: statement deletion / D: swap with previous statement
            if STMT.match(code) and not st.startswith("let ") and not st.startswith("return") and not st.startswith("pub ") \
                    and code.count("(") == code.count(")"):
                muts.append(dict(file=f, line=i + 1, op="del", before=raw, after="", what="delete statement"))
                if prev_stmt is not None and lines[prev_stmt].strip() != st and \
                        len(lines[prev_stmt]) - len(lines[prev_stmt].lstrip()) == len(raw) - len(raw.lstrip()):
                    muts.append(dict(file=f, line=i + 1, op="swap", before=raw, after=lines[prev_stmt], prev=prev_stmt + 1,
                                     what="swap with previous statement"))
                prev_stmt = i
            else:
                prev_stmt = None
            # E: misc token swaps
            for a, b in (("true", "false"), ("false", "true"), ("to_le_bytes", "to_be_bytes"), ("swap_bytes()", "to_le()"),
                         (" as u8", " as u16"), (" as u16", " as u8"), (" as u32", " as u16"), ("wrapping_add", "wrapping_sub"),
                         ("wrapping_sub", "wrapping_add"), ("checked_add", "checked_sub"), ("checked_mul", "checked_add"),
                         (".byte(", ".word("), (".word(", ".dword("), (".dword(", ".qword("), (".qword(", ".dword("),
                         ("u16::MAX", "u8::MAX"), ("u8::MAX", "u16::MAX"), ("u32::MAX", "u16::MAX"),
                         ("is_some()", "is_none()"), ("is_none()", "is_some()"), ("is_empty()", "is_empty() == false")):
                for m in re.finditer(r"(?<![\w])" + re.escape(a) if a[0].isalpha() else re.escape(a), code):
                    new = raw[:m.start()] + b + raw[m.end():]
                    muts.append(dict(file=f, line=i + 1, op="tok", before=raw, after=new, what="%s->%s@%d" % (a.strip(), b.strip(), m.start())))
            # F: negate an if / assert condition
            m = re.match(r"^(\s*)(if|assert!\()\s*(.+)$", raw)
            if m and m.group(2) == "if" and code.rstrip().endswith("{") and " let " not in code:
                cond = raw[m.end(2):raw.rstrip().rfind("{")].strip()
                muts.append(dict(file=f, line=i + 1, op="neg", before=raw, after="%sif !(%s) {" % (m.group(1), cond), what="negate condition"))
    for k, m in enumerate(muts):
        m["id"] = k
    with open(os.path.join(CACHE, "mutants.jsonl"), "w") as fo:
        for m in muts:
            fo.write(json.dumps(m) + "\n")
    by = {}
    for m in muts:
        by.setdefault((m["file"], m["op"]), 0)
        by[(m["file"], m["op"])] += 1
    print(len(muts), "mutants")
    files = sorted({k[0] for k in by})
    ops = sorted({k[1] for k in by})
    print("%-10s" % "" + "".join("%6s" % o for o in ops))
    for f in files:
        print("%-10s" % f + "".join("%6d" % by.get((f, o), 0) for o in ops))


def sh(cmd, cwd=None, env=None, timeout=None):
    e = dict(os.environ)
    e["CARGO_NET_OFFLINE"] = "true"
    if env:
        e.update(env)
    try:
        p = subprocess.run(cmd, cwd=cwd, env=e, timeout=timeout, stdout=subprocess.PIPE, stderr=subprocess.STDOUT,
                           text=True, shell=isinstance(cmd, str), errors="replace")
        return p.returncode, p.stdout
    except subprocess.TimeoutExpired:
        return 124, "timeout"


def flines(path):
    out = set()
    done = False
    if not os.path.exists(path):
        return out, False
    for l in open(path, errors="replace"):
        if l.startswith("F "):
            out.add(l.rstrip("\n"))
        elif l.startswith("DONE "):
            done = True
    return out, done


BASE = "base"
if "--base" in sys.argv:
    BASE = sys.argv[sys.argv.index("--base") + 1]


def base():
    b = os.path.join(CACHE, BASE)
    os.makedirs(b, exist_ok=True)
    for s in ALL_STREAMS + ["pkgblk"]:
        c = os.path.join(b, s + ".cases")
        rc, out = sh("%s gen %s quick 1 > %s" % (HB, s, c))
        assert rc == 0, out
        rc, out = sh("%s run < %s > %s.mid && %s < %s.mid > %s.out" % (HB, c, c, DRIVER, c, c), timeout=900)
        assert rc == 0, out
        fl, done = flines(c + ".out")
        assert done
        json.dump(sorted(fl), open(os.path.join(b, s + ".base.json"), "w"))
        os.remove(c + ".mid")
        print(s, "cases", sum(1 for _ in open(c)), "baseline F lines", len(fl), flush=True)


def setup_worker(w):
    d = os.path.join(SCR, str(w))
    if os.path.exists(d):
        shutil.rmtree(d)
    os.makedirs(d)
    sh("rsync -a --exclude target --exclude .git %s/ %s/crate/" % (REPO, d))
    shutil.copytree(os.path.join(ROOT, "harness"), os.path.join(d, "harness"), ignore=shutil.ignore_patterns("target", "*.profraw"))
    m = os.path.join(d, "harness", "Cargo.toml")
    txt = open(m).read().replace('path = "/repo"', 'path = "%s/crate"' % d)
    open(m, "w").write(txt)
    if not os.path.exists(os.path.join(d, "harness", "Cargo.lock")):
        shutil.copy(os.path.join(REPO, "Cargo.lock"), os.path.join(d, "harness", "Cargo.lock"))
    return d


RUSTFLAGS = "--cfg rust_vmm_acpi_tables_verif --check-cfg cfg(rust_vmm_acpi_tables_verif) -Awarnings"


def build(d):
    return sh(["cargo", "build", "--offline", "--release"], cwd=os.path.join(d, "harness"),
              env={"CARGO_TARGET_DIR": os.path.join(d, "target"), "RUSTFLAGS": RUSTFLAGS}, timeout=600)


def apply_mut(d, m):
    p = os.path.join(d, "crate", "src", m["file"])
    orig = open(os.path.join(REPO, "src", m["file"])).read()
    lines = orig.split("\n")
    assert lines[m["line"] - 1] == m["before"], (m, lines[m["line"] - 1])
    if m["op"] == "del":
        lines[m["line"] - 1] = ""
    elif m["op"] == "swap":
        lines[m["line"] - 1], lines[m["prev"] - 1] = lines[m["prev"] - 1], lines[m["line"] - 1]
    else:
        lines[m["line"] - 1] = m["after"]
    open(p, "w").write("\n".join(lines))
    return p, orig


def in_pkglen(m):
    if m["file"] != "aml.rs":
        return False
    src = open(os.path.join(REPO, "src", "aml.rs")).read().split("\n")
    a = next(i for i, l in enumerate(src) if "fn create_pkg_length" in l)
    return a <= m["line"] - 1 <= a + 45


def run_one(w, m, basef):
    d = os.path.join(SCR, str(w))
    t0 = time.time()
    p, orig = apply_mut(d, m)
    res = dict(id=m["id"], file=m["file"], line=m["line"], op=m["op"], what=m["what"], before=m["before"].strip()[:160],
               after=(m["after"] or "").strip()[:160])
    try:
        rc, out = build(d)
        if rc != 0:
            res["status"] = "stillborn"
            return res
        hb = os.path.join(d, "target", "release", "harness")
        order = list(ORDER.get(m["file"], TABLE_ORDER))
        if in_pkglen(m):
            order.append("pkgblk")
        work = os.path.join(d, "work")
        os.makedirs(work, exist_ok=True)
        for s in order:
            c = os.path.join(CACHE, BASE, s + ".cases")
            mid = os.path.join(work, s + ".mid")
            outp = os.path.join(work, s + ".out")
            rc, out = sh("%s run < %s > %s" % (hb, c, mid), timeout=300)
            if rc != 0:
                res.update(status="caught", stream=s, how="harness rc=%d %s" % (rc, out[-200:]), props=[])
                return res
            rc, out = sh("%s < %s > %s" % (DRIVER, mid, outp), timeout=900)
            fl, done = flines(outp)
            os.remove(mid)
            if rc != 0 or not done:
                res.update(status="caught", stream=s, how="driver rc=%d" % rc, props=[])
                return res
            new = fl - basef[s]
            if new:
                props = set()
                for l in new:
                    t = l.split(" ", 3)
                    props.update(t[2].split(","))
                ex = sorted(new)[0]
                res.update(status="caught", stream=s, props=sorted(props), n=len(new), example=ex[:300])
                return res
        # survived every stream: does the crate's own test suite notice?
        rc, out = sh(["cargo", "test", "--offline", "--lib"], cwd=os.path.join(d, "crate"),
                     env={"CARGO_TARGET_DIR": os.path.join(d, "target-tests")}, timeout=900)
        mt = re.search(r"test result: (\w+)\. (\d+) passed; (\d+) failed", out)
        if rc == 0 and mt and mt.group(1) == "ok":
            res["status"] = "SURVIVOR"
        else:
            res["status"] = "tests-only"
            res["tests"] = mt.group(0) if mt else out[-200:]
        return res
    finally:
        open(p, "w").write(orig)
        res["secs"] = round(time.time() - t0, 1)


def worker(w, todo, basef, outpath):
    d = setup_worker(w)
    rc, out = build(d)
    assert rc == 0, out[-2000:]
    for m in todo:
        try:
            r = run_one(w, m, basef)
        except Exception as e:  # keep sweeping
            r = dict(id=m["id"], file=m["file"], line=m["line"], op=m["op"], what=m["what"], status="error", err=repr(e)[:300])
        with open(outpath, "a") as fo:
            fo.write(json.dumps(r) + "\n")
    shutil.rmtree(d, ignore_errors=True)
    return len(todo)


def run():
    a = sys.argv[2:]
    def opt(k, dflt=None):
        return a[a.index(k) + 1] if k in a else dflt
    jobs = int(opt("--jobs", "8"))
    muts = [json.loads(l) for l in open(os.path.join(CACHE, "mutants.jsonl"))]
    if opt("--files"):
        fs = opt("--files").split(",")
        muts = [m for m in muts if m["file"] in fs]
    if opt("--ops"):
        os_ = opt("--ops").split(",")
        muts = [m for m in muts if m["op"] in os_]
    if opt("--ids"):
        ids = set(int(x) for x in opt("--ids").split(","))
        muts = [m for m in muts if m["id"] in ids]
    outpath = os.path.join(CACHE, opt("--out", "results.jsonl"))
    donei = set()
    if os.path.exists(outpath) and "--redo" not in a:
        donei = {json.loads(l)["id"] for l in open(outpath)}
    muts = [m for m in muts if m["id"] not in donei]
    if opt("--sample"):
        random.Random(int(opt("--seed", "1"))).shuffle(muts)
        muts = muts[:int(opt("--sample"))]
    basef = {s: set(json.load(open(os.path.join(CACHE, BASE, s + ".base.json")))) for s in ALL_STREAMS + ["pkgblk"]}
    print("running", len(muts), "mutants on", jobs, "workers", flush=True)
    # group by file per worker so incremental builds stay warm
    random.Random(12345).shuffle(muts)  # partial results are a uniform sample
    chunks = [muts[i::jobs] for i in range(jobs)]
    with concurrent.futures.ThreadPoolExecutor(max_workers=jobs) as ex:
        futs = [ex.submit(worker, i, chunks[i], basef, outpath) for i in range(jobs) if chunks[i]]
        for f in futs:
            f.result()
    shutil.rmtree(SCR, ignore_errors=True)
    report()


def report():
    a = sys.argv[2:]
    outpath = os.path.join(CACHE, a[a.index("--out") + 1] if "--out" in a else "results.jsonl")
    rs = {}
    for l in open(outpath):
        r = json.loads(l)
        rs[r["id"]] = r
    rs = list(rs.values())
    by = {}
    for r in rs:
        by[r["status"]] = by.get(r["status"], 0) + 1
    print("mutants run:", len(rs), by)
    viable = [r for r in rs if r["status"] in ("caught", "SURVIVOR", "tests-only")]
    print("viable (compile): %d; caught by the tie: %d (%.1f%%)" % (len(viable), by.get("caught", 0),
          100.0 * by.get("caught", 0) / max(1, len(viable))))
    pc = {}
    for r in rs:
        if r["status"] == "caught":
            for p in r.get("props") or ["(crash/timeout)"]:
                pc[p] = pc.get(p, 0) + 1
    print("caught, by property named in the failure lines:", dict(sorted(pc.items())))
    for st in ("SURVIVOR", "tests-only", "error"):
        print("==", st)
        for r in sorted((r for r in rs if r["status"] == st), key=lambda r: (r["file"], r["line"])):
            print("  #%d %s:%d [%s %s]  %s  =>  %s" % (r["id"], r["file"], r["line"], r["op"], r["what"], r.get("before", ""), r.get("after", "")))


if __name__ == "__main__":
    cmd = sys.argv[1] if len(sys.argv) > 1 else ""
    {"gen": gen, "base": base, "run": run, "report": report}.get(cmd, lambda: print(__doc__))()
